"""C16 - TimeZone is a faithful value: save/restore arms selected *by value*, equality field completeness,
manual offset = std + dst, kind constants distinct."""
from .common import AnalysisError, Report
from . import cxx
from .gnf import SymExec, Poly, Valuation, formula_atoms, poly_key_str
from .ir import walk_stmts, walk_expr, all_exprs, stmt_exprs, show
from .paths import path_of

META = {
    'explanation': 'E-GNF summaries of ZoneManagerImpl::createForTimeZoneData, TimeZone::toTimeZoneData, TimeZone::getZoneId and the '
                   'operator== family; each arm is selected by the folded numeric value of the kType constants (not by label '
                   'spelling), then its effect is compared with the expected restore/save action; operator== of each value type is '
                   'evaluated from its path summary on every 0/1 assignment of the fields of both operands and every pair of kinds: '
                   'true exactly when the kinds agree and the fields of that kind agree; manual zones (a standard and a DST offset) are put '
                   'through getUtcOffset / getDeltaOffset / getOffsetDateTime / printShortTo by typed interpretation of the real bodies.',
    'decided': 'every TimeZoneData type value restores through the arm with the right effect; every TimeZone kind saves to the right '
               'type and payload; operator== of TimeZone, TimeZoneData, ZonedDateTime, OffsetDateTime, LocalDateTime, LocalDate, '
               'LocalTime, TimeOffset compares the discriminator first and every field of the active arm, same field on both sides; '
               'manual total offset is std + dst; the six TimeZone kinds are pairwise distinct',
    'not_decided': 'that lookup by id finds the zone (C10/C11); answers of the restored zone (C01/C02)',
    'assumptions': ['clang 14 parser and template instantiation'],
}

TZ = 'ace_time::TimeZone'
TZD = 'ace_time::TimeZoneData'


def _P(k):
    return Poly(dict(k))


def _atom(p):
    if len(p.t) == 1:
        (k, v), = p.t.items()
        if len(k) == 1 and v == 1:
            return k[0]
    return None


def select(summary, subject_sym, value):
    """paths of a summary that can be taken when the discriminator equals `value` (other atoms are free)."""
    from .gnf import valuations
    hits = []
    for path in summary.paths:
        g = path[0]
        feasible = False
        for val in valuations([g]):
            ok = True
            for base, reg in val.regions.items():
                if _atom(_P(base)) == ('sym', subject_sym):
                    if reg != ('pt', value):
                        # the value lies in this gap region only if no threshold equals it
                        if reg[0] == 'pt' or not ((reg[1] is None or reg[1] < value) and (reg[2] is None or value < reg[2])):
                            ok = False
            if ok and val.eval(g):
                feasible = True
                break
        if feasible:
            hits.append((path[1], path[2], path[3]))
    return hits


def call_of(key):
    """('fn', name, args) atom of a result key, or None."""
    if key is None:
        return None
    a = _atom(_P(key))
    if a is not None and a[0] == 'fn':
        return a
    return None


def run(cfg):
    R = Report('C16', cfg)
    lib = cxx.load_lib(cfg)
    R.analysed['translation_units'] = ['tu/lib.cpp']
    consts = {}
    for n in ('kTypeError', 'kTypeManual', 'kTypeBasic', 'kTypeExtended', 'kTypeBasicManaged', 'kTypeExtendedManaged'):
        consts['TZ.' + n] = lib.const('%s::%s' % (TZ, n))
    for n in ('kTypeError', 'kTypeManual', 'kTypeZoneId'):
        consts['TZD.' + n] = lib.const('%s::%s' % (TZD, n))
    R.analysed['constants'] = consts
    # R5 distinct kinds
    R.rule('R5', 'the six TimeZone kind constants and the three TimeZoneData type constants are pairwise distinct', floor=2)
    for fam in ('TZ.', 'TZD.'):
        vals = {k: v for k, v in consts.items() if k.startswith(fam)}
        R.instance('R5', fam + 'kType*', 'src/ace_time/TimeZone.h' if fam == 'TZ.' else 'src/ace_time/TimeZoneData.h', str(vals))
        if len(set(vals.values())) != len(vals):
            R.violation('R5', fam + 'kType*', '?', 'kind constants collide: %r' % vals)
    from . import rules_C16b
    rules_C16b.roundtrip_rule(R, lib, consts)
    equality_rules(R, lib, consts)
    manual_rule(R, lib, consts)
    return R


def equality_table(lib, f, fields, disc=None, disc_values=(None,), other=None):
    """Decide operator== by evaluation of its path summary (E-GNF, boolean returns split into guarded 1/0 outcomes) on every
    0/1 assignment of the fields of both operands: -> list of (disc value, {field: (va, vb)}, result) rows; result None
    when no single path applies.  Nested operator== calls on sub-objects count as comparisons of those sub-objects."""
    import itertools
    from .gnf import eval_formula
    a, b = f.params[0][0], f.params[1][0]

    def getter(e, canon):
        """x.accessor() whose body is `return <field>;` reads that field of x"""
        if e.k == 'call' and e.a[1] is not None and not e.a[2]:
            fs = lib.fns(e.a[0])
            body = fs[0].body if fs else []
            if len(body) == 1 and body[0].k == 'return' and body[0].a[0] is not None:
                r = body[0].a[0]
                while r.k == 'cast':
                    r = r.a[2]
                if r.k == 'field' and r.a[0].k == 'this':
                    p = canon.path(e.a[1])
                    if p is not None:
                        return canon.leaf(p + '.' + r.a[1])
        return None
    sx = SymExec(fold_global=lib.global_value, resolve=getter)
    sx.bool_return = True
    sx.cmp_calls = {'ace_time::operator==': '==', 'ace_time::operator!=': '!='}
    summ = sx.run(f.name, f.body, {})
    from .gnf import poly_leaves, arith_assign
    known = {('sym', '%s.%s' % (o, n)) for o in (a, b) for n in list(fields) + ([disc] if disc else [])}
    foreign = set()
    for g in summ.guards():
        for at in formula_atoms(g):
            # leaves under comparison / negation terms count (a named boolean local holds such a term); calls do not
            for x in poly_leaves(_P(at[1]), kinds=('sym', 'fn', 'opaque')):
                if x not in known:
                    foreign.add(x)
    if foreign:
        return None, 'the comparison reads %s, which is not a field of the two operands' % sorted(repr(Poly.atom(x)) for x in foreign)[:3]
    rows = []
    fl = sorted(fields)
    full = len(fl) <= 6
    for dv in disc_values:
        # the second operand: the same kind, every other kind and a value that is no kind at all (operands of two different kinds
        # with all fields alike - all 0, all 1 - are where a comparison that looks at the payload first goes wrong)
        for db in (([dv] + [x_ for x_ in list(disc_values) + [other] if x_ != dv]) if disc else (None,)):
            if disc and db != dv:
                combos = [tuple(0 for _ in range(2 * len(fl))), tuple(1 for _ in range(2 * len(fl)))]
            elif full:
                combos = itertools.product((0, 1), repeat=2 * len(fl))
            else:
                combos = [tuple(0 for _ in range(2 * len(fl)))] + [tuple(1 if j == i else 0 for j in range(2 * len(fl))) for i in range(2 * len(fl))]
            if not disc or db == dv:
                combos = itertools.chain(combos, _compensating(fl, set(fl)))
            for combo in combos:
                names = {}
                for i, n in enumerate(fl):
                    names['%s.%s' % (a, n)] = combo[2 * i]
                    names['%s.%s' % (b, n)] = combo[2 * i + 1]
                if disc:
                    names['%s.%s' % (a, disc)] = dv
                    names['%s.%s' % (b, disc)] = db
                env = arith_assign(names)
                hits = [p for p in summ.paths if eval_formula(p[0], env)]
                res = None
                if len(hits) == 1 and hits[0][1] == 'return' and hits[0][2] is not None and _P(hits[0][2]).is_const():
                    res = _P(hits[0][2]).const_value()
                rows.append((dv, db, {n: (combo[2 * i], combo[2 * i + 1]) for i, n in enumerate(fl)}, res))
    return rows, ''


def _compensating(fl, ok):
    """Assignments beyond 0/1 in which two fields differ in a way that cancels in a derived quantity - swapped values, equal sums,
    equal products - while every other field is 1 on both sides: a comparison of `std + dst` (or of `std * dst`) instead of the
    two fields themselves agrees with a field-wise one on every 0/1 assignment and on none of these."""
    idx = [i for i, n in enumerate(fl) if n in ok]
    for i in idx:
        for j in idx:
            if i == j:
                continue
            for ai, aj, bi, bj in ((1, 2, 2, 1), (1, 3, 2, 2), (1, 4, 2, 2), (3, 5, 5, 3)):
                combo = [1] * (2 * len(fl))
                combo[2 * i], combo[2 * j], combo[2 * i + 1], combo[2 * j + 1] = ai, aj, bi, bj
                yield tuple(combo)


def equality_table_interp(lib, f, cls, fields, disc=None, disc_values=(None,), other=None):
    """The same table by typed interpretation (E-SEQ) of operator== on two objects of the class: a field of class type holds the
    value in every integer member of it, a field of pointer type points to one of two marker objects.  Used where the path summary
    of the operator reads more than the fields of its operands (a kind looked up in a constant table, a helper function)."""
    import itertools
    from .aeval import AEval, AObj, CxxModule, Raised, cxx_object
    mod = CxxModule(lib, ['ace_time::'])
    ftype = {n: (t or '') for n, t, _x in lib.fields(cls)}
    # what a member of pointer type points to: two zone records with different ids (a comparison may look into them - the id of
    # the zone - as well as at their addresses), else two opaque objects
    markers = []
    for k_ in (0, 1):
        try:
            m_ = cxx_object(lib, 'ace_time::extended::ZoneInfo')
            m_.attrs['zoneId'] = 70001 + k_
            m_.oid = 'target%d' % k_
        except Exception:
            m_ = AObj({}, oid='target%d' % k_, cls='marker')
        markers.append(m_)

    def fill(o, v):
        for k_, x in list(o.attrs.items()):
            if isinstance(x, AObj):
                fill(x, v)
            elif isinstance(x, list):
                o.attrs[k_] = [v for _ in x]
            elif k_ in getattr(o, 'ptrs', ()):
                o.attrs[k_] = markers[v]
            else:
                o.attrs[k_] = v

    def make(assign, dv):
        o = cxx_object(lib, cls)
        for n, v in assign.items():
            cur = o.attrs.get(n)
            if isinstance(cur, AObj):
                fill(cur, v)
            elif '*' in ftype.get(n, ''):
                o.attrs[n] = markers[v]
            else:
                o.attrs[n] = v
        if disc:
            o.attrs[disc] = dv
        return o
    rows = []
    fl = sorted(fields)
    full = len(fl) <= 6
    for dv in disc_values:
        # the second operand: the same kind, every other kind and a value that is no kind at all (operands of two different kinds
        # with all fields alike - all 0, all 1 - are where a comparison that looks at the payload first goes wrong)
        for db in (([dv] + [x_ for x_ in list(disc_values) + [other] if x_ != dv]) if disc else (None,)):
            if disc and db != dv:
                combos = [tuple(0 for _ in range(2 * len(fl))), tuple(1 for _ in range(2 * len(fl)))]
            elif full:
                combos = itertools.product((0, 1), repeat=2 * len(fl))
            else:
                combos = [tuple(0 for _ in range(2 * len(fl)))] + [tuple(1 if j == i else 0 for j in range(2 * len(fl))) for i in range(2 * len(fl))]
            if not disc or db == dv:
                proto = cxx_object(lib, cls)
                scalar = {n for n in fl if '*' not in ftype.get(n, '') and isinstance(proto.attrs.get(n), int) and n not in getattr(proto, 'ptrs', ())}
                combos = itertools.chain(combos, _compensating(fl, scalar))
            for combo in combos:
                oa = make({n: combo[2 * i] for i, n in enumerate(fl)}, dv)
                ob_ = make({n: combo[2 * i + 1] for i, n in enumerate(fl)}, db)
                try:
                    r = AEval(module=mod, typed=True, max_steps=20000).call_function(f.name, [oa, ob_], chosen=CxxModule._Fn(f))
                    res = 1 if AEval.truth(r) else 0
                except Raised:
                    res = None
                except (KeyError, IndexError, TypeError) as x_:
                    raise AnalysisError('%s: the interpretation of operator== reads what the abstract operands do not hold (%s: %s)' % (f.loc, type(x_).__name__, x_))
                rows.append((dv, db, {n: (combo[2 * i], combo[2 * i + 1]) for i, n in enumerate(fl)}, res))
    return rows, ''


def equality_rules(R, lib, consts):
    R.rule('R3', 'operator== is true exactly when the kinds agree and every field of the active arm agrees (evaluated on every 0/1 assignment of the fields)', floor=10)
    for cls in ('LocalDate', 'LocalTime', 'LocalDateTime', 'OffsetDateTime', 'ZonedDateTime', 'TimeOffset', 'TimePeriod'):
        fs = [f for f in lib.funcs.get('ace_time::operator==', []) if f.params and (f.params[0][1] or '').replace('const ', '').replace('&', '').strip() == 'ace_time::' + cls]
        c = 'operator==(%s)' % cls
        if not fs:
            if cls == 'TimePeriod':
                continue
            raise AnalysisError('anchor vanished: operator== for %s' % cls)
        f = fs[0]
        fields = {n for n, _t, _x in lib.fields('ace_time::' + cls)}
        rows, why = equality_table(lib, f, fields)
        if rows is None or any(r_[3] is None for r_ in rows):
            rows, why = equality_table_interp(lib, f, 'ace_time::' + cls, fields)
        R.instance('R3', c, f.loc, '%d assignments' % (len(rows) if rows else 0))
        if rows is None:
            R.violation('R3', c, f.loc, why)
            continue
        for _dv, _db, asg, res in rows:
            differ = sorted(n for n, (x, y) in asg.items() if x != y)
            want = 0 if differ else 1
            if res != want:
                R.violation('R3', c, f.loc, 'two values that differ in %s compare equal: the field is not compared (or not with its counterpart)' % ', '.join(differ)
                            if differ else 'two values with equal fields do not compare equal')
                break
    for cls, disc, arms in ((TZ, 'mType', {
            'kTypeError': set(), 'kTypeManual': {'mStdOffsetMinutes', 'mDstOffsetMinutes'}, 'kTypeBasic': {'mZoneInfo'},
            'kTypeExtended': {'mZoneInfo'}, 'kTypeBasicManaged': {'mZoneInfo'}, 'kTypeExtendedManaged': {'mZoneInfo'}}, ),
            (TZD, 'type', {'kTypeError': set(), 'kTypeManual': {'stdOffsetMinutes', 'dstOffsetMinutes'}, 'kTypeZoneId': {'zoneId'}})):
        short = cls.split('::')[-1]
        fs = [f for f in lib.funcs.get('ace_time::operator==', []) if f.params and (f.params[0][1] or '').replace('const ', '').replace('&', '').strip() == cls]
        if not fs:
            raise AnalysisError('anchor vanished: operator== for %s' % short)
        f = fs[0]
        pref = 'TZ.' if cls == TZ else 'TZD.'
        # every data member but the discriminator takes part in the assignments: a member that belongs to no kind (the processor a
        # zone happens to use) must not decide the comparison
        allf = set().union(*arms.values()) | {n_ for n_, _t, _x in lib.fields(cls) if n_ != disc}
        vals = {name: consts[pref + name] for name in arms}
        other = max(vals.values()) + 1
        rows, why = equality_table(lib, f, allf, disc=disc, disc_values=sorted(set(vals.values())), other=other)
        if rows is None or any(r_[3] is None for r_ in rows):
            rows, why = equality_table_interp(lib, f, cls, allf, disc=disc, disc_values=sorted(set(vals.values())), other=other)
        c0 = 'operator==(%s):discriminator' % short
        R.instance('R3', c0, f.loc)
        if rows is None:
            R.violation('R3', c0, f.loc, why)
            continue
        bad_disc = [r for r in rows if r[1] != r[0] and r[3] != 0]
        if bad_disc:
            R.violation('R3', c0, f.loc, 'two values of different kinds (%s vs %s) compare equal' % (bad_disc[0][0], bad_disc[0][1]))
        for name, want in arms.items():
            v = vals[name]
            c = 'operator==(%s):%s' % (short, name)
            R.instance('R3', c, f.loc)
            for dv, db, asg, res in rows:
                if dv != v or db != v:
                    continue
                differ = sorted(n for n, (x, y) in asg.items() if x != y and n in want)
                expect = 0 if differ else 1
                if res != expect:
                    if differ:
                        R.violation('R3', c, f.loc, 'two %s values of kind %s that differ in %s compare equal' % (short, name, ', '.join(differ)))
                    else:
                        extra = sorted(n for n, (x, y) in asg.items() if x != y)
                        R.violation('R3', c, f.loc, 'two %s values of kind %s with equal %s do not compare equal%s' % (
                            short, name, ', '.join(sorted(want)) or 'kind', (' (they differ only in %s, which is not part of that kind)' % ', '.join(extra)) if extra else ''))
                    break


def manual_rule(R, lib, consts):
    """R4 by interpretation (E-SEQ, typed): manual TimeZone objects (type kTypeManual, a standard and a DST offset in minutes)
    are put through getUtcOffset / getDeltaOffset / getOffsetDateTime / printShortTo with their real bodies; the offsets that come
    out are std + dst, dst, std + dst, and the text printed is the ISO form of std + dst."""
    from .aeval import AEval, AObj, CxxModule, Raised, cxx_object
    from .rules_C15 import print_intrinsics
    R.rule('R4', 'a manual zone reports std + dst as its total offset and dst as its DST offset', floor=4)
    mod = CxxModule(lib, ['ace_time::'])
    intr = print_intrinsics()
    samples = [(-480, 60), (0, 0), (330, 0), (60, -60), (-210, 30), (765, 60), (-720, 0), (0, 60)]

    def zone(s, d):
        z = cxx_object(lib, TZ)
        if 'mStdOffsetMinutes' not in z.attrs or 'mDstOffsetMinutes' not in z.attrs or 'mType' not in z.attrs:
            raise AnalysisError('anchor moved: TimeZone no longer holds mType / mStdOffsetMinutes / mDstOffsetMinutes')
        z.attrs.update({'mType': consts['TZ.kTypeManual'], 'mStdOffsetMinutes': s, 'mDstOffsetMinutes': d})
        return z

    def call(f, args, recv):
        return AEval(module=mod, intrinsics=intr, typed=True, max_steps=100000).call_function(f.name, list(args), recv=recv, chosen=CxxModule._Fn(f))

    def minutes(o):
        if isinstance(o, AObj) and 'mMinutes' in o.attrs:
            return o.attrs['mMinutes']
        return 'not a TimeOffset (%r)' % (o,)
    for name, want, mk in (('getUtcOffset', lambda s, d: s + d, lambda: [0]), ('getDeltaOffset', lambda s, d: d, lambda: [0]), ('getOffsetDateTime', lambda s, d: s + d, None)):
        f = lib.fn(TZ + '::' + name)
        c = '%s:manual' % f.name
        R.instance('R4', c, f.loc, '%d manual zones interpreted' % len(samples))
        bad = None
        for s, d in samples:
            try:
                if mk is not None:
                    got = minutes(call(f, mk(), zone(s, d)))
                else:
                    ldt = cxx_object(lib, 'ace_time::LocalDateTime')
                    ldt.attrs['mLocalDate'].attrs.update({'mYearTiny': 5, 'mMonth': 6, 'mDay': 15})
                    ldt.attrs['mLocalTime'].attrs.update({'mHour': 12, 'mMinute': 30, 'mSecond': 0})
                    r = call(f, [ldt], zone(s, d))
                    got = minutes(r.attrs.get('mTimeOffset')) if isinstance(r, AObj) else 'not an OffsetDateTime (%r)' % (r,)
            except Raised as x_:
                got = 'raises %s' % x_.what
            if got != want(s, d) and bad is None:
                bad = 'a manual zone with a standard offset of %d and a DST offset of %d minutes: %s() gives %s, expected %d minutes' % (s, d, name, got, want(s, d))
        if bad:
            R.violation('R4', c, f.loc, bad)
    f = lib.fn(TZ + '::printShortTo')
    c = '%s:manual' % f.name
    R.instance('R4', c, f.loc, '%d manual zones interpreted' % len(samples))
    bad = None
    for s, d in samples:
        if (s, d) == (0, 0):
            continue                    # the zone without offsets prints its name, "UTC"
        pr = AObj({'out': []}, oid='printer', cls='Print')
        try:
            call(f, [pr], zone(s, d))
            text = ''.join(pr.attrs['out'])
        except Raised as x_:
            text = 'raises %s' % x_.what
        tot = s + d
        iso = '%s%02d:%02d' % ('-' if tot < 0 else '+', abs(tot) // 60, abs(tot) % 60)
        if iso not in text and bad is None:
            bad = 'a manual zone with a standard offset of %d and a DST offset of %d minutes prints %r, which does not contain %s (std + dst)' % (s, d, text, iso)
    if bad:
        R.violation('R4', c, f.loc, bad)


def _all_fn_atoms(p, depth=0):
    out = []
    for a in p.atoms():
        if a[0] == 'fn':
            out.append(a)
            for x in a[2]:
                if isinstance(x, tuple) and x and x[0] != 'kw':
                    try:
                        out.extend(_all_fn_atoms(_P(x), depth + 1))
                    except Exception:
                        pass
        elif a[0] == 'init':
            for x in a[2]:
                try:
                    out.extend(_all_fn_atoms(_P(x), depth + 1))
                except Exception:
                    pass
    return out


SELFTEST = [
    # a member that belongs to no kind decides the comparison / the payload is looked at before the kind / the kind through a table
    dict(id='equality-also-compares-the-processor', file='src/ace_time/TimeZone.h', find='      return (a.mZoneInfo == b.mZoneInfo);\n    default:\n      return false;',
         replace='      return (a.mZoneInfo == b.mZoneInfo) && (a.mZoneProcessor == b.mZoneProcessor);\n    default:\n      return false;', rule='R3', construct='kTypeBasic'),
    dict(id='equality-by-zone-id-before-the-kind', file='src/ace_time/TimeZone.h', find='inline bool operator==(const TimeZone& a, const TimeZone& b) {\n  if (a.mType != b.mType) return false;',
         replace='inline bool operator==(const TimeZone& a, const TimeZone& b) {\n  if (a.getZoneId() != 0 && a.getZoneId() == b.getZoneId()) return true;\n  if (a.mType != b.mType) return false;',
         rule='R3', construct='discriminator'),
    dict(id='equality-kinds-through-a-table-silent', file='src/ace_time/TimeZone.h',
         find='inline bool operator==(const TimeZone& a, const TimeZone& b) {\n  if (a.mType != b.mType) return false;\n  switch (a.mType) {',
         replace='inline bool operator==(const TimeZone& a, const TimeZone& b) {\n  static const uint8_t kSame[] = {0, 1, 2, 3, 4, 5};\n  if (a.mType != b.mType) return false;\n'
                 '  switch (a.mType < 6 ? kSame[a.mType] : a.mType) {', expect='silent'),
    dict(id='zoneid-type-renumbered', file='src/ace_time/TimeZoneData.h', find='static const uint8_t kTypeZoneId = 2;',
         replace='static const uint8_t kTypeZoneId = 4;', rule='R1', construct=':zone'),
    dict(id='processor-kinds-renumbered', file='src/ace_time/ZoneProcessor.h', find='static const uint8_t kTypeBasic = 2;',
         replace='static const uint8_t kTypeBasic = 6;', rule='R1'),
    dict(id='restore-offsets-swapped', file='src/ace_time/ZoneManager.h',
         find='              TimeOffset::forMinutes(d.stdOffsetMinutes),\n              TimeOffset::forMinutes(d.dstOffsetMinutes));',
         replace='              TimeOffset::forMinutes(d.dstOffsetMinutes),\n              TimeOffset::forMinutes(d.stdOffsetMinutes));', rule='R1', construct=':manual'),
    dict(id='save-dst-from-std', file='src/ace_time/TimeZone.h', find='          d.dstOffsetMinutes = mDstOffsetMinutes;',
         replace='          d.dstOffsetMinutes = mStdOffsetMinutes;', rule='R2', construct=':manual'),
    dict(id='managed-kind-not-saved', file='src/ace_time/TimeZone.h',
         find='        case TimeZone::kTypeBasicManaged:\n        case TimeZone::kTypeExtendedManaged:\n          d.zoneId = getZoneId();',
         replace='          d.zoneId = getZoneId();', rule='R2'),
    dict(id='zoneid-through-wrong-broker', file='src/ace_time/TimeZone.h',
         find='        case kTypeExtended:\n        case kTypeExtendedManaged:\n          return ExtendedZone((const extended::ZoneInfo*) mZoneInfo).zoneId();',
         replace='        case kTypeExtended:\n          return ExtendedZone((const extended::ZoneInfo*) mZoneInfo).zoneId();\n        case kTypeExtendedManaged:\n          return 0;', rule='R2', construct=':zone'),
    dict(id='equality-ignores-dst', file='src/ace_time/TimeZone.h',
         find='      return a.mStdOffsetMinutes == b.mStdOffsetMinutes\n          && a.mDstOffsetMinutes == b.mDstOffsetMinutes;',
         replace='      return a.mStdOffsetMinutes == b.mStdOffsetMinutes;', rule='R3'),
    dict(id='equality-compares-a-with-a', file='src/ace_time/TimeZoneData.h', find='return (a.zoneId == b.zoneId);', replace='return (a.zoneId == a.zoneId);', rule='R3'),
    dict(id='equality-of-manual-zones-by-total-offset', file='src/ace_time/TimeZone.h',
         find='      return a.mStdOffsetMinutes == b.mStdOffsetMinutes\n          && a.mDstOffsetMinutes == b.mDstOffsetMinutes;',
         replace='      return (a.mStdOffsetMinutes + a.mDstOffsetMinutes == b.mStdOffsetMinutes + b.mDstOffsetMinutes)\n          && ((a.mDstOffsetMinutes != 0) == (b.mDstOffsetMinutes != 0));', rule='R3', construct='kTypeManual'),
    dict(id='localdate-equality-by-field-sum', file='src/ace_time/LocalDate.h',
         find='  return a.mDay == b.mDay\n      && a.mMonth == b.mMonth\n      && a.mYearTiny == b.mYearTiny;',
         replace='  return a.mDay + a.mMonth == b.mDay + b.mMonth\n      && a.mYearTiny == b.mYearTiny;', rule='R3'),
    dict(id='offsetdatetime-equality-drops-offset', file='src/ace_time/OffsetDateTime.h',
         find='  return a.mLocalDateTime == b.mLocalDateTime\n      && a.mTimeOffset == b.mTimeOffset;', replace='  return a.mLocalDateTime == b.mLocalDateTime;', rule='R3'),
    dict(id='manual-offset-std-only', file='src/ace_time/TimeZone.h', unique=False, nth=0,
         find='return TimeOffset::forMinutes(mStdOffsetMinutes + mDstOffsetMinutes);', replace='return TimeOffset::forMinutes(mStdOffsetMinutes);', rule='R4', construct='getUtcOffset'),
    dict(id='equality-zone-compared-for-manual', file='src/ace_time/TimeZone.h',
         find='      return a.mStdOffsetMinutes == b.mStdOffsetMinutes\n          && a.mDstOffsetMinutes == b.mDstOffsetMinutes;',
         replace='      return a.mStdOffsetMinutes == b.mStdOffsetMinutes\n          && a.mDstOffsetMinutes == b.mDstOffsetMinutes\n          && a.mZoneInfo == b.mZoneInfo;', rule='R3', construct='kTypeManual'),
    dict(id='equality-kinds-not-compared', file='src/ace_time/TimeZoneData.h', find='  if (a.type != b.type) return false;\n  switch (a.type) {\n    case TimeZoneData::kTypeManual:',
         replace='  switch (a.type) {\n    case TimeZoneData::kTypeManual:', rule='R3', construct='discriminator'),
    # behaviour-preserving rewrites: the rules must stay quiet
    dict(id='equality-sides-swapped-silent', file='src/ace_time/TimeZone.h',
         find='      return a.mStdOffsetMinutes == b.mStdOffsetMinutes\n          && a.mDstOffsetMinutes == b.mDstOffsetMinutes;',
         replace='      return b.mDstOffsetMinutes == a.mDstOffsetMinutes\n          && a.mStdOffsetMinutes == b.mStdOffsetMinutes;', expect='silent'),
    dict(id='equality-kind-test-negated-silent', file='src/ace_time/TimeZone.h', find='  if (a.mType != b.mType) return false;', replace='  if (!(a.mType == b.mType)) return false;', expect='silent'),
    dict(id='equality-by-early-returns-silent', file='src/ace_time/TimeZoneData.h',
         find='      return (a.stdOffsetMinutes == b.stdOffsetMinutes)\n          && (a.dstOffsetMinutes == b.dstOffsetMinutes);',
         replace='      if (a.stdOffsetMinutes != b.stdOffsetMinutes) return false;\n      return a.dstOffsetMinutes == b.dstOffsetMinutes;', expect='silent'),
    dict(id='equality-switch-on-second-operand-silent', file='src/ace_time/TimeZoneData.h', find='  if (a.type != b.type) return false;\n  switch (a.type) {', replace='  if (a.type != b.type) return false;\n  switch (b.type) {', expect='silent'),
    dict(id='offsetdatetime-equality-reordered-silent', file='src/ace_time/OffsetDateTime.h',
         find='  return a.mLocalDateTime == b.mLocalDateTime\n      && a.mTimeOffset == b.mTimeOffset;', replace='  return a.mTimeOffset == b.mTimeOffset\n      && a.mLocalDateTime == b.mLocalDateTime;', expect='silent'),
    dict(id='save-statements-reordered-silent', file='src/ace_time/TimeZone.h',
         find='          d.stdOffsetMinutes = mStdOffsetMinutes;\n          d.dstOffsetMinutes = mDstOffsetMinutes;', replace='          d.dstOffsetMinutes = mDstOffsetMinutes;\n          d.stdOffsetMinutes = mStdOffsetMinutes;', expect='silent'),
    dict(id='manual-offset-commuted-silent', file='src/ace_time/TimeZone.h', unique=False, nth=0,
         find='return TimeOffset::forMinutes(mStdOffsetMinutes + mDstOffsetMinutes);', replace='return TimeOffset::forMinutes(mDstOffsetMinutes + mStdOffsetMinutes);', expect='silent'),
    dict(id='switch-on-data-constants-silent', file='src/ace_time/ZoneManager.h',
         find='        case TimeZone::kTypeError:\n          return TimeZone::forError();\n        case TimeZone::kTypeManual:',
         replace='        case TimeZoneData::kTypeError:\n          return TimeZone::forError();\n        case TimeZoneData::kTypeManual:', expect='silent'),
]
