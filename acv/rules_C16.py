"""C16 - TimeZone is a faithful value: save/restore arms selected *by value*, equality field completeness,
manual offset = std + dst, kind constants distinct."""
from .common import AnalysisError, Report
from . import cxx
from .gnf import SymExec, Poly, Valuation, formula_atoms, poly_key_str
from .ir import walk_stmts, walk_expr, all_exprs, stmt_exprs, show
from .paths import path_of

META = {
    'explanation': 'E-GNF summaries of ZoneManagerImpl::createForTimeZoneData, TimeZone::toTimeZoneData, TimeZone::getZoneId and the '
                   'operator== family; each arm is selected by the folded numeric value of the kType constants (not by label '
                   'spelling), then its effect is compared with the expected restore/save action; field-completeness of equality.',
    'decided': 'every TimeZoneData type value restores through the arm with the right effect; every TimeZone kind saves to the right '
               'type and payload; operator== of TimeZone, TimeZoneData, ZonedDateTime, OffsetDateTime, LocalDateTime, LocalDate, '
               'LocalTime, TimeOffset compares the discriminator first and every field of the active arm, same field on both sides; '
               'manual total offset is std + dst; the six TimeZone kinds are pairwise distinct',
    'not_decided': 'that lookup by id finds the zone (C10/C11); answers of the restored zone (C01/C02)',
    'assumptions': ['clang 14 parser and template instantiation'],
}

TZ = 'ace_time::TimeZone'
TZD = 'ace_time::TimeZoneData'


def _P(k):
    return Poly(dict(k))


def _atom(p):
    if len(p.t) == 1:
        (k, v), = p.t.items()
        if len(k) == 1 and v == 1:
            return k[0]
    return None


def select(summary, subject_sym, value):
    """paths of a summary that can be taken when the discriminator equals `value` (other atoms are free)."""
    from .gnf import valuations
    hits = []
    for path in summary.paths:
        g = path[0]
        feasible = False
        for val in valuations([g]):
            ok = True
            for base, reg in val.regions.items():
                if _atom(_P(base)) == ('sym', subject_sym):
                    if reg != ('pt', value):
                        # the value lies in this gap region only if no threshold equals it
                        if reg[0] == 'pt' or not ((reg[1] is None or reg[1] < value) and (reg[2] is None or value < reg[2])):
                            ok = False
            if ok and val.eval(g):
                feasible = True
                break
        if feasible:
            hits.append((path[1], path[2], path[3]))
    return hits


def call_of(key):
    """('fn', name, args) atom of a result key, or None."""
    if key is None:
        return None
    a = _atom(_P(key))
    if a is not None and a[0] == 'fn':
        return a
    return None


def run(cfg):
    R = Report('C16', cfg)
    lib = cxx.load_lib(cfg)
    R.analysed['translation_units'] = ['tu/lib.cpp']
    consts = {}
    for n in ('kTypeError', 'kTypeManual', 'kTypeBasic', 'kTypeExtended', 'kTypeBasicManaged', 'kTypeExtendedManaged'):
        consts['TZ.' + n] = lib.const('%s::%s' % (TZ, n))
    for n in ('kTypeError', 'kTypeManual', 'kTypeZoneId'):
        consts['TZD.' + n] = lib.const('%s::%s' % (TZD, n))
    R.analysed['constants'] = consts
    # R5 distinct kinds
    R.rule('R5', 'the six TimeZone kind constants and the three TimeZoneData type constants are pairwise distinct', floor=2)
    for fam in ('TZ.', 'TZD.'):
        vals = {k: v for k, v in consts.items() if k.startswith(fam)}
        R.instance('R5', fam + 'kType*', 'src/ace_time/TimeZone.h' if fam == 'TZ.' else 'src/ace_time/TimeZoneData.h', str(vals))
        if len(set(vals.values())) != len(vals):
            R.violation('R5', fam + 'kType*', '?', 'kind constants collide: %r' % vals)
    restore_rule(R, lib, consts)
    save_rule(R, lib, consts)
    equality_rules(R, lib, consts)
    manual_rule(R, lib, consts)
    return R


def restore_rule(R, lib, consts):
    R.rule('R1', 'createForTimeZoneData: the arm selected by each TimeZoneData type *value* performs the matching restore', floor=6)
    fs = [f for f in lib.fns('ace_time::ZoneManagerImpl::createForTimeZoneData')]
    if len(fs) < 2:
        raise AnalysisError('anchor moved: ZoneManagerImpl::createForTimeZoneData instantiations')
    for f in fs:
        d = f.params[0][0]
        sx = SymExec(fold_global=lib.global_value)
        s = sx.run(f.name, f.body, {})
        tag = 'basic' if 'basic' in (f.inst or '') else 'extended'
        for name, key in (('kTypeError', 'TZD.kTypeError'), ('kTypeManual', 'TZD.kTypeManual'), ('kTypeZoneId', 'TZD.kTypeZoneId')):
            c = '%s[%s]:type=%s' % (f.name, tag, name)
            hits = select(s, d + '.type', consts[key])
            R.instance('R1', c, f.loc, 'value %d' % consts[key])
            if len(hits) != 1 or hits[0][0] != 'return':
                R.violation('R1', c, f.loc, 'type value %d selects %d arms' % (consts[key], len(hits)))
                continue
            call = call_of(hits[0][1])
            ok = False
            why = 'returns %s' % (poly_key_str(hits[0][1]) if hits[0][1] is not None else None)
            if name == 'kTypeError':
                ok = call is not None and call[1] == TZ + '::forError'
            elif name == 'kTypeManual':
                if call is not None and call[1] == TZ + '::forTimeOffset' and len(call[2]) == 2:
                    args = [call_of(x) for x in call[2]]
                    fields = []
                    for a in args:
                        if a is not None and a[1] == 'ace_time::TimeOffset::forMinutes' and len(a[2]) == 1:
                            fa = _atom(_P(a[2][0]))
                            fields.append(fa[1] if fa and fa[0] == 'sym' else None)
                    ok = fields == [d + '.stdOffsetMinutes', d + '.dstOffsetMinutes']
                    why = 'restores the offsets from %s (expected std, dst in that order)' % fields
            else:
                if call is not None and call[1].endswith('::createForZoneId') and len(call[2]) == 2:
                    fa = _atom(_P(call[2][1]))
                    ok = fa == ('sym', d + '.zoneId')
            if not ok:
                R.violation('R1', c, f.loc, 'a saved %s (type value %d) is restored through an arm that %s' % (name, consts[key], why))


def save_rule(R, lib, consts):
    R.rule('R2', 'toTimeZoneData / getZoneId: every TimeZone kind saves the right type and payload', floor=11)
    f = lib.fn(TZ + '::toTimeZoneData')
    sx = SymExec(fold_global=lib.global_value)
    s = sx.run(f.name, f.body, {})
    expect = {
        'kTypeManual': ('TZD.kTypeManual', {'d.stdOffsetMinutes': ('sym', 'this.mStdOffsetMinutes'), 'd.dstOffsetMinutes': ('sym', 'this.mDstOffsetMinutes')}),
        'kTypeError': ('TZD.kTypeError', {}),
    }
    for k in ('kTypeBasic', 'kTypeExtended', 'kTypeBasicManaged', 'kTypeExtendedManaged'):
        expect[k] = ('TZD.kTypeZoneId', {'d.zoneId': ('fn', TZ + '::getZoneId')})
    dvar = None
    for name, (tname, payload) in expect.items():
        c = '%s:kind=%s' % (f.name, name)
        R.instance('R2', c, f.loc, 'value %d' % consts['TZ.' + name])
        hits = select(s, 'this.mType', consts['TZ.' + name])
        if len(hits) != 1:
            R.violation('R2', c, f.loc, 'kind value %d selects %d arms' % (consts['TZ.' + name], len(hits)))
            continue
        eff = {}
        for tgt, val in hits[0][2]:
            if tgt != 'call':
                eff[tgt.split('.', 1)[1] if '.' in tgt else tgt] = val
        # normalise target names to d.<field>
        eff = {('d.' + k_): v for k_, v in eff.items()}
        tv = eff.get('d.type')
        if tv is None or not _P(tv).is_const() or _P(tv).const_value() != consts[tname]:
            R.violation('R2', c, f.loc, 'saved type is %s, expected %s (%d)' % (poly_key_str(tv) if tv else None, tname, consts[tname]))
            continue
        for fld, want in payload.items():
            got = eff.get(fld)
            a = _atom(_P(got)) if got is not None else None
            ok = a is not None and ((want[0] == 'sym' and a == want) or (want[0] == 'fn' and a[0] == 'fn' and a[1] == want[1]))
            if not ok:
                R.violation('R2', c, f.loc, 'payload %s is %s, expected %s' % (fld, poly_key_str(got) if got is not None else 'unset', want[1]))
    # getZoneId arms
    g = lib.fn(TZ + '::getZoneId')
    sg = SymExec(fold_global=lib.global_value).run(g.name, g.body, {})
    want = {'kTypeManual': None, 'kTypeBasic': 'basic', 'kTypeBasicManaged': 'basic', 'kTypeExtended': 'extended', 'kTypeExtendedManaged': 'extended'}
    for name, scope in want.items():
        c = '%s:kind=%s' % (g.name, name)
        R.instance('R2', c, g.loc)
        hits = select(sg, 'this.mType', consts['TZ.' + name])
        if len(hits) != 1 or hits[0][0] != 'return':
            R.violation('R2', c, g.loc, 'kind value selects %d arms' % len(hits))
            continue
        res = hits[0][1]
        if scope is None:
            if not (_P(res).is_const() and _P(res).const_value() == 0):
                R.violation('R2', c, g.loc, 'a manual zone reports zone id %s, expected 0' % poly_key_str(res))
            continue
        call = call_of(res)
        ok = False
        if call is not None and call[1].endswith('::zoneId') and call[2]:
            recv = _atom(_P(call[2][0]))
            if recv is not None and recv[0] == 'init':
                cls = recv[1]
                arg = _atom(_P(recv[2][0])) if recv[2] else None
                ok = ('Basic' if scope == 'basic' else 'Extended') + 'Zone' in cls and arg == ('sym', 'this.mZoneInfo')
        if not ok:
            R.violation('R2', c, g.loc, 'zone id of a %s zone is read as %s, expected %sZone(mZoneInfo).zoneId()' %
                        (scope, poly_key_str(res), 'Basic' if scope == 'basic' else 'Extended'))


def _eq_pairs(formula_src):
    return formula_src


def compared_fields(e, a, b, lib=None):
    """set of field names f such that (a.f == b.f) or (a.f() == b.f()) occurs in conjunction e; plus 'mismatch' notes."""
    out, bad = set(), []

    def rec(x):
        if x.k == 'bin' and x.a[0] == '&&':
            rec(x.a[1])
            rec(x.a[2])
            return
        y = x
        while y.k in ('cast',) or (y.k == 'un' and y.a[0] == 'bool'):
            y = y.a[-1]
        l = r = None
        if y.k == 'bin' and y.a[0] == '==':
            l, r = y.a[1], y.a[2]
        elif y.k == 'call' and y.a[0].endswith('operator==') and len(y.a[2]) == 2:
            l, r = y.a[2]
        if l is None:
            bad.append('conjunct %s is not an equality' % show(x)[:60])
            return
        while l.k == 'cast':
            l = l.a[2]
        while r.k == 'cast':
            r = r.a[2]
        pl, pr = path_of(l), path_of(r)
        if pl and pr and '.' in pl and '.' in pr:
            (ol, fl), (or_, fr) = pl.split('.', 1), pr.split('.', 1)
            if {ol, or_} == {a, b} and fl == fr:
                out.add(fl)
                return
            bad.append('%s is compared with %s' % (pl, pr))
            return
        bad.append('conjunct %s does not compare a field of both operands' % show(x)[:60])
    rec(e)
    return out, bad


def equality_rules(R, lib, consts):
    R.rule('R3', 'operator== compares the discriminator first and then every field of the active arm, same field on both sides', floor=10)
    # plain classes: all fields
    for cls in ('LocalDate', 'LocalTime', 'LocalDateTime', 'OffsetDateTime', 'ZonedDateTime', 'TimeOffset', 'TimePeriod'):
        q = 'ace_time::operator=='
        fs = [f for f in lib.funcs.get(q, []) if f.params and cls in (f.params[0][1] or '') and ('::' + cls + ' ') in (' ' + (f.params[0][1] or '').replace('const ', '').replace('&', ' '))]
        fs = [f for f in fs if (f.params[0][1] or '').replace('const ', '').replace('&', '').strip() == 'ace_time::' + cls]
        c = 'operator==(%s)' % cls
        if not fs:
            if cls == 'TimePeriod':
                continue
            raise AnalysisError('anchor vanished: operator== for %s' % cls)
        f = fs[0]
        R.instance('R3', c, f.loc)
        a, b = f.params[0][0], f.params[1][0]
        rets = [s for s in walk_stmts(f.body) if s.k == 'return']
        if len(rets) != 1:
            R.violation('R3', c, f.loc, 'equality is not a single conjunction')
            continue
        got, bad = compared_fields(rets[0].a[0], a, b)
        fields = {n for n, _t, _x in lib.fields('ace_time::' + cls)}
        if bad:
            R.violation('R3', c, rets[0].loc, '; '.join(bad))
        elif got != fields:
            R.violation('R3', c, rets[0].loc, 'fields %s are not compared (compared: %s)' % (sorted(fields - got), sorted(got)))
    # discriminated unions
    for cls, disc, arms in ((TZ, 'mType', {
            'kTypeError': set(), 'kTypeManual': {'mStdOffsetMinutes', 'mDstOffsetMinutes'}, 'kTypeBasic': {'mZoneInfo'},
            'kTypeExtended': {'mZoneInfo'}, 'kTypeBasicManaged': {'mZoneInfo'}, 'kTypeExtendedManaged': {'mZoneInfo'}}, ),
            (TZD, 'type', {'kTypeError': set(), 'kTypeManual': {'stdOffsetMinutes', 'dstOffsetMinutes'}, 'kTypeZoneId': {'zoneId'}})):
        short = cls.split('::')[-1]
        fs = [f for f in lib.funcs.get('ace_time::operator==', []) if f.params and (f.params[0][1] or '').replace('const ', '').replace('&', '').strip() == cls]
        if not fs:
            raise AnalysisError('anchor vanished: operator== for %s' % short)
        f = fs[0]
        a, b = f.params[0][0], f.params[1][0]
        body = f.body
        c0 = 'operator==(%s):discriminator' % short
        R.instance('R3', c0, f.loc)
        first = body[0] if body else None
        ok = False
        if first is not None and first.k == 'if':
            cnd = first.a[0]
            while cnd.k == 'cast':
                cnd = cnd.a[2]
            if cnd.k == 'bin' and cnd.a[0] == '!=':
                l, r = cnd.a[1], cnd.a[2]
                while l.k == 'cast':
                    l = l.a[2]
                while r.k == 'cast':
                    r = r.a[2]
                ok = {path_of(l), path_of(r)} == {a + '.' + disc, b + '.' + disc} and first.a[1] and first.a[1][0].k == 'return' \
                    and first.a[1][0].a[0].k == 'const' and first.a[1][0].a[0].a[0] == 0
        if not ok:
            R.violation('R3', c0, f.loc, 'the kinds of the two operands are not compared first')
        sw = [s for s in body if s.k == 'switch']
        if len(sw) != 1:
            R.violation('R3', c0, f.loc, 'expected one switch over the kind')
            continue
        pref = 'TZ.' if cls == TZ else 'TZD.'
        for name, want in arms.items():
            v = consts[pref + name]
            c = 'operator==(%s):%s' % (short, name)
            R.instance('R3', c, sw[0].loc)
            arm = None
            for labels, blk in sw[0].a[1]:
                for l in labels:
                    if l is not None:
                        lv = l
                        while lv.k == 'cast':
                            lv = lv.a[2]
                        val = lv.a[0] if lv.k == 'const' else lib.global_value(lv.a[0]) if lv.k == 'var' else None
                        if val == v:
                            arm = blk
            if arm is None:
                # falls to default
                for labels, blk in sw[0].a[1]:
                    if any(l is None for l in labels):
                        arm = blk
            # follow fall-through: an empty arm shares the next non-empty block
            if arm is not None and not arm:
                idx = [i for i, (_l, blk) in enumerate(sw[0].a[1]) if blk is arm][0]
                for _l, blk in sw[0].a[1][idx:]:
                    if blk:
                        arm = blk
                        break
            rets = [s for s in (arm or []) if s.k == 'return']
            if not rets:
                R.violation('R3', c, sw[0].loc, 'no result for kind %s' % name)
                continue
            e = rets[0].a[0]
            if not want:
                if not (e.k == 'const' and e.a[0] == 1):
                    R.violation('R3', c, rets[0].loc, 'two %s values of kind %s do not compare equal' % (short, name))
                continue
            got, bad = compared_fields(e, a, b)
            if bad:
                R.violation('R3', c, rets[0].loc, '; '.join(bad))
            elif got != want:
                R.violation('R3', c, rets[0].loc, 'kind %s compares fields %s, expected %s' % (name, sorted(got), sorted(want)))


def manual_rule(R, lib, consts):
    R.rule('R4', 'a manual zone reports std + dst as its total offset and dst as its DST offset', floor=4)
    v = consts['TZ.kTypeManual']
    std, dst = Poly.atom(('sym', 'this.mStdOffsetMinutes')), Poly.atom(('sym', 'this.mDstOffsetMinutes'))
    for name, want in (('getUtcOffset', std + dst), ('getDeltaOffset', dst), ('getOffsetDateTime', std + dst)):
        f = lib.fn(TZ + '::' + name)
        c = '%s:manual' % f.name
        R.instance('R4', c, f.loc)
        s = SymExec(fold_global=lib.global_value).run(f.name, f.body, {})
        hits = select(s, 'this.mType', v)
        found = False
        for kind, res, eff in hits:
            keys = [res] + [val for _t, val in eff]
            for k in keys:
                if k is None:
                    continue
                for a in _all_fn_atoms(_P(k)):
                    if a[1] == 'ace_time::TimeOffset::forMinutes' and len(a[2]) == 1 and _P(a[2][0]) == want:
                        found = True
        if not found:
            R.violation('R4', c, f.loc, 'the manual arm does not build its offset from %r' % want)
    # printShortTo (loops free, but prints): the offset printed is std + dst
    f = lib.fn(TZ + '::printShortTo')
    c = '%s:manual' % f.name
    R.instance('R4', c, f.loc)
    ok = False
    for e in all_exprs(f.body):
        if e.k == 'call' and e.a[0] == 'ace_time::TimeOffset::forMinutes' and len(e.a[2]) == 1:
            from .gnf import Canon
            p = Canon()(e.a[2][0])
            if p == std + dst:
                ok = True
    if not ok:
        R.violation('R4', c, f.loc, 'printShortTo does not print std + dst for a manual zone')


def _all_fn_atoms(p, depth=0):
    out = []
    for a in p.atoms():
        if a[0] == 'fn':
            out.append(a)
            for x in a[2]:
                if isinstance(x, tuple) and x and x[0] != 'kw':
                    try:
                        out.extend(_all_fn_atoms(_P(x), depth + 1))
                    except Exception:
                        pass
        elif a[0] == 'init':
            for x in a[2]:
                try:
                    out.extend(_all_fn_atoms(_P(x), depth + 1))
                except Exception:
                    pass
    return out


SELFTEST = [
    dict(id='zoneid-type-renumbered', file='src/ace_time/TimeZoneData.h', find='static const uint8_t kTypeZoneId = 2;',
         replace='static const uint8_t kTypeZoneId = 4;', rule='R1', construct='kTypeZoneId'),
    dict(id='processor-kinds-renumbered', file='src/ace_time/ZoneProcessor.h', find='static const uint8_t kTypeBasic = 2;',
         replace='static const uint8_t kTypeBasic = 6;', rule='R1'),
    dict(id='restore-offsets-swapped', file='src/ace_time/ZoneManager.h',
         find='              TimeOffset::forMinutes(d.stdOffsetMinutes),\n              TimeOffset::forMinutes(d.dstOffsetMinutes));',
         replace='              TimeOffset::forMinutes(d.dstOffsetMinutes),\n              TimeOffset::forMinutes(d.stdOffsetMinutes));', rule='R1', construct='kTypeManual'),
    dict(id='save-dst-from-std', file='src/ace_time/TimeZone.h', find='          d.dstOffsetMinutes = mDstOffsetMinutes;',
         replace='          d.dstOffsetMinutes = mStdOffsetMinutes;', rule='R2', construct='kTypeManual'),
    dict(id='managed-kind-not-saved', file='src/ace_time/TimeZone.h',
         find='        case TimeZone::kTypeBasicManaged:\n        case TimeZone::kTypeExtendedManaged:\n          d.zoneId = getZoneId();',
         replace='          d.zoneId = getZoneId();', rule='R2'),
    dict(id='zoneid-through-wrong-broker', file='src/ace_time/TimeZone.h',
         find='        case kTypeExtended:\n        case kTypeExtendedManaged:\n          return ExtendedZone((const extended::ZoneInfo*) mZoneInfo).zoneId();',
         replace='        case kTypeExtended:\n          return ExtendedZone((const extended::ZoneInfo*) mZoneInfo).zoneId();\n        case kTypeExtendedManaged:\n          return 0;', rule='R2', construct='getZoneId'),
    dict(id='equality-ignores-dst', file='src/ace_time/TimeZone.h',
         find='      return a.mStdOffsetMinutes == b.mStdOffsetMinutes\n          && a.mDstOffsetMinutes == b.mDstOffsetMinutes;',
         replace='      return a.mStdOffsetMinutes == b.mStdOffsetMinutes;', rule='R3'),
    dict(id='equality-compares-a-with-a', file='src/ace_time/TimeZoneData.h', find='return (a.zoneId == b.zoneId);', replace='return (a.zoneId == a.zoneId);', rule='R3'),
    dict(id='offsetdatetime-equality-drops-offset', file='src/ace_time/OffsetDateTime.h',
         find='  return a.mLocalDateTime == b.mLocalDateTime\n      && a.mTimeOffset == b.mTimeOffset;', replace='  return a.mLocalDateTime == b.mLocalDateTime;', rule='R3'),
    dict(id='manual-offset-std-only', file='src/ace_time/TimeZone.h', unique=False, nth=0,
         find='return TimeOffset::forMinutes(mStdOffsetMinutes + mDstOffsetMinutes);', replace='return TimeOffset::forMinutes(mStdOffsetMinutes);', rule='R4', construct='getUtcOffset'),
    dict(id='switch-on-data-constants-silent', file='src/ace_time/ZoneManager.h',
         find='        case TimeZone::kTypeError:\n          return TimeZone::forError();\n        case TimeZone::kTypeManual:',
         replace='        case TimeZoneData::kTypeError:\n          return TimeZone::forError();\n        case TimeZoneData::kTypeManual:', expect='silent'),
]
