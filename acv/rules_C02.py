"""C02 - basic zones: the data-side preconditions BasicZoneProcessor relies on hold for every shipped basic zone
(E-TAB, exhaustive), the compiler establishes them in basic scope (interpreted on a feature source, acv/pipeline.py), and
zones shared with the extended database are encoded from identical recorded lines."""
import ast

from .common import AnalysisError, Report
from . import cxx, tables, tzline, py
from .ir import walk_stmts, walk_expr, stmt_exprs, show
from .paths import path_of
from .tables import Ref

META = {
    'explanation': 'E-TAB over all basic zones, policies and years startYear-1..untilYear: whole-year UNTIL, one rule per month '
                   'and year, no Jan-1 transition, single-character letters, and the five-slot bound n(z,y) <= kMaxCacheEntries '
                   'where the formula is derived from the call sites of addTransition reachable from init(); the compiler '
                   'interpreted (E-SEQ) in basic scope on a source with one zone per construct outside the basic processor, its output '
                   'rendered, parsed and put through the same data rules (B, B1-B4); zonedb vs zonedbx recorded-line equality; E-GNF year '
                   'alignment of the three cache-fill helpers (era of the label year, latest rule before the instant the '
                   'transition stands for, effect of a deviation enumerated over the shipped tables); findLatestPriorRule '
                   'interpreted (E-SEQ, typed, brokers and compareRulesBeforeYear / priorYearOfRule through their bodies) on '
                   'abstract policies of 0..3 rules: which FROM years count as "before", and that the result maximises '
                   '(min(TO, year-1), month); _get_anchor_rule interpreted on policies of two and three rules in every order '
                   'with SAVE 0 and SAVE 1:00 rules carrying different letters; BasicZoneProcessor and ExtendedZoneProcessor interpreted in full '
                   '(E-SEQ, typed, acv/rules_C04c.py) on model zones compiled by the interpreted compiler for both scopes (F) and on the shipped '
                   'tables of every basic zone that changes era, around each such New Year (G), and on the shipped tables of the zones both databases '
                   'hold, around every transition the interpreted reference reports (H: every eighth zone and two years in the quick tier, all 268 '
                   'zones and five years in the thorough one): identical offset, DST offset and abbreviation.',
    'decided': 'the stated data preconditions of BasicZoneProcessor hold for every shipped basic zone and year; the basic '
               'cache never needs more than kMaxCacheEntries slots; what the compiler emits in basic scope for the feature source meets the '
               'same preconditions (a basic-only filter that is skipped, mis-scoped, weakened or whose result is dropped lets a feature zone through); names(zonedb) is a subset of names(zonedbx) with identical recorded era/rule lines and TZ version; '
               'every stored basic transition pairs the era of its label year with the latest rule before the instant it stands for '
               '(for every shipped zone and year); anchor rules carry a standard-time letter; on the model zones and around every era change of the '
               'shipped basic zones the two processors, interpreted in full, give identical answers',
    'not_decided': 'the basic algorithm against zic (no zic in the repository); equality of the answers of the two processors at instants '
                   'outside the stated families (away from era changes on shipped zones; zones unlike the model zones)',
    'assumptions': ['clang 14 parser', 'CPython ast', 'calendar resolution of ON expressions by datetime (checker oracle)'],
}

BASIC = 'ace_time::BasicZoneProcessor'


# ---------------------------------------------------------------------------------------------------------
# A5: five-slot bound, formula derived from the code
# ---------------------------------------------------------------------------------------------------------

def classify_sites(lib):
    """Call sites of addTransition reachable from init(), each with its control context:
       once | policy-null | policy-nonnull+era-change(which) | per-rule-in-year | per-rule"""
    init = [f for f in lib.fns(BASIC + '::init') if f.params and 'LocalDate' in (f.params[0][1] or '')][0]
    callees = []
    for e in (x for s in walk_stmts(init.body) for e0 in stmt_exprs(s) for x in walk_expr(e0)):
        if e.k == 'call' and e.a[0].startswith(BASIC + '::') and lib.fns(e.a[0]):
            callees.append(e.a[0])
    sites = []
    for q in dict.fromkeys(callees):
        f = lib.fns(q)[0]
        _walk(lib, f, f.body, [], sites)
    return init, sites


def _cond_kind(c):
    txt = show(c)
    calls = [e for e in walk_expr(c) if e.k == 'call']
    names = [e.a[0].split('::')[-1] for e in calls]
    if names.count('zoneEra') == 2 and c.k == 'bin' and c.a[0] in ('!=', '=='):
        recvs = sorted(path_of(e.a[1]) or '?' for e in calls)
        return ('era-differs' if c.a[0] == '!=' else 'era-same', tuple(recvs))
    if names == ['isNull'] and calls[0].a[1] is not None:
        return ('policy-null', path_of(calls[0].a[1]))
    if 'fromYearTiny' in names and 'toYearTiny' in names:
        return ('rule-in-year', None)
    return ('other', txt)


def _walk(lib, f, block, ctx, sites):
    ctx = list(ctx)
    for s in block:
        if s.k == 'if':
            k = _cond_kind(s.a[0])
            _walk(lib, f, s.a[1], ctx + [(k, True)], sites)
            _walk(lib, f, s.a[2], ctx + [(k, False)], sites)
            # an arm that always returns makes the rest of the block conditional on the other arm
            if s.a[1] and s.a[1][-1].k == 'return' and not s.a[2]:
                ctx.append((k, False))
            elif s.a[2] and s.a[2][-1].k == 'return' and not s.a[1]:
                ctx.append((k, True))
        elif s.k == 'loop':
            _walk(lib, f, s.a[4], ctx + [(('loop', show(s.a[2]) if s.a[2] is not None else 'true'), True)], sites)
        elif s.k == 'switch':
            for _l, blk in s.a[1]:
                _walk(lib, f, blk, ctx + [(('other', 'switch'), True)], sites)
        for e0 in stmt_exprs(s):
            for e in walk_expr(e0):
                if e.k == 'call' and e.a[0] == BASIC + '::addTransition':
                    sites.append((f.name.split('::')[-1], e.loc, tuple(ctx)))


def site_formula(site):
    """(kind, guard) for one site; raises if the context shape is not one of the recognised ones."""
    fn, loc, ctx = site
    loops = [c for c in ctx if c[0][0] == 'loop']
    conds = [c for c in ctx if c[0][0] != 'loop']
    kind = 'once'
    guards = []
    for (k, arg), truth in conds:
        if k == 'policy-null':
            guards.append(('policy-null', truth))
        elif k in ('era-differs', 'era-same'):
            differs = (k == 'era-differs') == truth
            guards.append(('era-differs', differs))
        elif k == 'rule-in-year':
            if not truth:
                raise AnalysisError('%s: addTransition on the negative arm of the year filter' % loc)
            guards.append(('rule-in-year', True))
        else:
            raise AnalysisError('%s: addTransition is control dependent on a condition the five-slot bound does not model: %s' % (loc, arg))
    if len(loops) > 1:
        raise AnalysisError('%s: addTransition inside nested loops' % loc)
    if loops:
        if 'numRules' not in loops[0][0][1] and 'i <' not in loops[0][0][1].replace('(i32)', ''):
            pass
        kind = 'per-rule'
    return kind, tuple(guards)


def five_slot_rule(cfg, R, lib, T, rid='A5'):
    R.rule(rid, 'number of addTransition calls init() can make for (zone, year) is at most kMaxCacheEntries', floor=268 * 50)
    init, sites = classify_sites(lib)
    if len(sites) < 5:
        raise AnalysisError('anchor moved: %d call sites of addTransition reachable from init() (5 confirmed by hand)' % len(sites))
    forms = []
    for s in sites:
        kind, guards = site_formula(s)
        forms.append((s[0], s[1], kind, guards))
    R.analysed['addTransition_sites'] = ['%s@%s %s %s' % (f, loc, kind, list(g)) for f, loc, kind, g in forms]
    kmax = lib.const(BASIC + '::kMaxCacheEntries')
    # the three phases look at (y-1, y), (y), (y, y+1): which era pair an era-change guard refers to is given by the function
    start, until = T.context['startYear'], T.context['untilYear']
    worst = (0, None)
    for short in T.infos:
        eras = T.zone_eras(short)

        def era_at(y):
            yt = y - 2000
            for e in eras:
                if yt < e['untilYearTiny']:
                    return e
            return eras[-1]
        for y in range(start - 1, until + 1):
            e_prev, e_cur, e_next = era_at(y - 1), era_at(y), era_at(y + 1)
            n = 0
            for fn, loc, kind, guards in forms:
                if fn == 'addTransitionPriorToYear':
                    era, other = e_prev, None
                elif fn == 'addTransitionsForYear':
                    era, other = e_cur, e_prev
                elif fn == 'addTransitionAfterYear':
                    era, other = e_next, e_cur
                else:
                    raise AnalysisError('%s: addTransition reached from an unexpected member %s' % (loc, fn))
                pol = era['zonePolicy']
                ok = True
                count = 1
                for g, val in guards:
                    if g == 'policy-null':
                        ok = ok and ((pol is None) == val)
                    elif g == 'era-differs':
                        ok = ok and ((era is not other) == val)
                if not ok:
                    continue
                if kind == 'per-rule':
                    if pol is None:
                        continue
                    rules = T.policy_rules(pol.name)
                    if ('rule-in-year', True) in guards:
                        count = sum(1 for r in rules if r['fromYearTiny'] <= y - 2000 <= r['toYearTiny'])
                    else:
                        count = len(rules)
                n += count
            c = 'zonedb::%s@%d' % (short, y)
            R.instance(rid, c, T.infos[short].loc, None)
            if n > worst[0]:
                worst = (n, c)
            if n > kmax:
                R.violation(rid, c, T.infos[short].loc, 'init() makes %d addTransition calls for this zone and year but the cache has %d slots: transitions are dropped' % (n, kmax))
    R.note('five-slot bound: worst case %d calls at %s, capacity %d' % (worst[0], worst[1], kmax))


# ---------------------------------------------------------------------------------------------------------
# A1-A4: data preconditions
# ---------------------------------------------------------------------------------------------------------

def data_rules(cfg, R, lib, T, ids=('A1', 'A2', 'A3', 'A4'), floors=(280, 60, 360, 360), db='zonedb', what='every basic'):
    A1, A2, A3, A4 = ids
    R.rule(A1, '%s era UNTIL is a whole year with suffix w; eras strictly increasing; last era is open' % what, floor=floors[0])
    R.rule(A2, '%s policy: at most one rule per month among the rules active in any year from the first rule to untilYear' % what, floor=floors[1])
    R.rule(A3, '%s policy: no rule transition falls on January 1' % what, floor=floors[2])
    R.rule(A4, '%s policy: every rule letter is a single printable character' % what, floor=floors[3])
    sufw = lib.const('ace_time::basic::ZoneContext::kSuffixW')
    start, until = T.context['startYear'], T.context['untilYear']
    for arr, entries in T.eras.items():
        prev = None
        for e in entries:
            c = '%s::%s[%d]' % (db, arr, e.index)
            R.instance(A1, c, e.loc)
            bad = []
            if not (e['untilMonth'] == 1 and e['untilDay'] == 1 and e['untilTimeCode'] == 0 and (e['untilTimeModifier'] & 0x0f) == 0):
                bad.append('UNTIL is not a whole year')
            if (e['untilTimeModifier'] & 0xf0) != sufw:
                bad.append('UNTIL suffix is not w')
            if prev is not None and not (prev < e['untilYearTiny']):
                bad.append('eras are not strictly increasing in untilYearTiny')
            prev = e['untilYearTiny']
            if e.index == len(entries) - 1 and e['untilYearTiny'] != 127:
                bad.append('last era is not open-ended (untilYearTiny != 127)')
            if bad:
                R.violation(A1, c, e.loc, '; '.join(bad))
    for pname in T.policies:
        rules = T.policy_rules(pname)
        c = '%s::%s' % (db, pname)
        R.instance(A2, c, T.policies[pname].loc)
        # every year the rules cover, not only the generated ones: the processor takes "the latest rule before" a year by (year, month)
        # alone, so two rules of one month in a year long past tie there as well
        first = min([start - 1] + [2000 + r['fromYearTiny'] for r in rules if r['fromYearTiny'] > -127])
        for y in range(first, until + 1):
            months = {}
            for r in rules:
                if r['fromYearTiny'] <= y - 2000 <= r['toYearTiny']:
                    months.setdefault(r['inMonth'], []).append(r.index)
            dup = {m: v for m, v in months.items() if len(v) > 1}
            if dup:
                R.violation(A2, c, T.policies[pname].loc, 'year %d: rules %s share a month' % (y, dup))
                break
        letters = T.policy_letters(pname)
        for r in rules:
            rc = '%s::%s[%d]' % (db, r.owner, r.index)
            R.instance(A4, rc, r.loc)
            if r['letter'] < 32 or letters:
                R.violation(A4, rc, r.loc, 'letter cell %d is not a single printable character (or the policy has a letters array)' % r['letter'])
            R.instance(A3, rc, r.loc)
            if r['fromYearTiny'] <= -127 or r['toYearTiny'] <= -127:
                continue   # anchor rule (MIN year): it is the documented Jan-1 placeholder
            if r['inMonth'] == 1 and r['onDayOfMonth'] == 1:
                R.violation(A3, rc, r.loc, 'rule is a transition on January 1 (inMonth=1, onDayOfMonth=1)')
                continue
            lo = max(r['fromYearTiny'] + 2000, start - 1)
            hi = min(r['toYearTiny'] + 2000, until)
            for y in range(lo, hi + 1):
                try:
                    m, d = tzline.resolve_on(y, r['inMonth'], r['onDayOfWeek'], r['onDayOfMonth'])
                except ValueError:
                    continue
                if (m, d) == (1, 1):
                    R.violation(A3, rc, r.loc, 'rule resolves to January 1 in %d' % y)
                    break


# ---------------------------------------------------------------------------------------------------------
# B: transformer applies the basic-only filters on the basic path
# ---------------------------------------------------------------------------------------------------------

def feature_rules(cfg, R, lib):
    """B, decided on what the compiler computes: the compiler is interpreted in basic scope (acv/pipeline.py) on a source with one
    zone per feature the basic processor lacks, next to control zones; what it emits is rendered, parsed and put through the same
    data rules A1-A4 as the shipped basic database.  A basic-only filter that is skipped, applied in the other scope only, or whose
    result is dropped lets one of the feature zones through, and that zone fails its data rule."""
    from . import pipeline
    from .pyeval import Raised
    R.rule('B', 'basic compilation of the feature source keeps the control zones', floor=len(pipeline.FEATURE_CONTROLS))
    R.analysed['python_modules'] = [pipeline.EX, pipeline.TR, pipeline.CO]
    loc = py.load(cfg, pipeline.TR).fn('Transformer.transform').loc
    try:
        s = pipeline.sweep(cfg, 'basic', text=pipeline.feature_text(), tag='features')
    except Raised as r_:
        R.instance('B', 'features:compile', loc)
        R.violation('B', 'features:compile', loc, '%s' % r_.what)
        return
    emitted = set(s.T.zone_names()) if hasattr(s.T, 'zone_names') else set()
    for z in pipeline.FEATURE_CONTROLS:
        R.instance('B', 'features:%s' % z, loc)
        if z not in s.tzdb['zones_map']:
            why = (s.tzdb.get('removed_zones') or {}).get(z)
            R.violation('B', 'features:%s' % z, loc, 'a zone that uses no feature outside the basic processor is not emitted in basic scope (%s)' % (why or 'no reason recorded'))
    R.note('feature source: %d zones in, %d emitted in basic scope: %s' % (len(s.source['zones']), len(s.tzdb['zones_map']), sorted(s.tzdb['zones_map'])))
    data_rules(cfg, R, lib, s.T, ids=('B1', 'B2', 'B3', 'B4'), floors=(len(pipeline.FEATURE_CONTROLS), 2, 4, 4), db='features',
               what='feature source, basic scope: every emitted')


# ---------------------------------------------------------------------------------------------------------
# C: zonedb is a subset of zonedbx with identical recorded lines
# ---------------------------------------------------------------------------------------------------------

def subset_rules(cfg, R, B, X):
    R.rule('C', 'every basic zone is an extended zone with the same recorded era lines and policy rule lines', floor=268)
    bn, xn = B.names(), X.names()
    vb, vx = B.strings.get('kTzDatabaseVersion'), X.strings.get('kTzDatabaseVersion')
    R.instance('C', 'kTzDatabaseVersion', B.context.loc)
    if vb != vx:
        R.violation('C', 'kTzDatabaseVersion', B.context.loc, 'zonedb is generated from %r, zonedbx from %r' % (vb, vx))
    for name, short in bn.items():
        c = 'shared::' + name
        R.instance('C', c, B.infos[short].loc)
        if name not in xn:
            R.violation('C', c, B.infos[short].loc, 'basic zone is missing from the extended database')
            continue
        eb = B.zone_eras(short)
        ex = X.zone_eras(xn[name])
        lb = [' '.join((e.comment or '').split()) for e in eb]
        lx = [' '.join((e.comment or '').split()) for e in ex]
        if lb != lx:
            R.violation('C', c, B.infos[short].loc, 'recorded era lines differ: zonedb %s vs zonedbx %s' % (lb, lx))
            continue
        for e in eb:
            p = e['zonePolicy']
            if isinstance(p, Ref):
                if p.name not in X.policies:
                    R.violation('C', c, e.loc, 'policy %s is missing from the extended database' % p.name)
                    continue
                rb = [' '.join((r.comment or '').split()) for r in B.policy_rules(p.name)]
                rx = [' '.join((r.comment or '').split()) for r in X.policy_rules(p.name)]
                if rb != rx:
                    R.violation('C', c, e.loc, 'recorded rule lines of %s differ between the databases' % p.name)


def anchor_rule_rule(cfg, R):
    """The anchor rule added in front of a policy stands for "standard time since ever": it is a copy of an existing rule
    with the dates and SAVE overwritten, so every field that is not overwritten (LETTER above all) is inherited.  The
    function is interpreted (E-SEQ) on policies of two and three rules, in every order, with SAVE 0 and SAVE 1:00 rules
    carrying different letters: the anchor must have SAVE 0 and the letter of a SAVE == 0 rule."""
    from .pyeval import PyEval, PObj, Raised
    from itertools import product
    m = py.load(cfg, 'tools/tzdb/transformer.py')
    pev = PyEval(cfg, max_steps=20000000)
    R.rule('E', 'the anchor rule is copied from a rule with SAVE == 0 (its LETTER is the standard-time letter)', floor=1)
    f = m.fn('Transformer._get_anchor_rule')
    c = 'tzdb.transformer.Transformer._get_anchor_rule:candidate'
    R.instance('E', c, f.loc)
    quiet = {k: (lambda ev, recv, args: None) for k in ('logging.info', 'info')}
    n = 0
    bad = None
    dates = [(2005, 3, 27), (2005, 10, 30), (2006, 3, 26)]
    for k in (2, 3):
        for order in product(range(len(dates)), repeat=k):
            if len(set(order)) != k:
                continue
            for saves in product((0, 3600), repeat=k):
                if 0 not in saves:
                    continue        # every policy has a standard-time rule
                rules = []
                for idx, sv in zip(order, saves):
                    y, mo, d = dates[idx]
                    rules.append({'fromYear': y, 'toYear': 9999, 'inMonth': mo, 'onDay': str(d), 'onDayOfWeek': 0, 'onDayOfMonth': d,
                                  'atTime': '2:00', 'atTimeSuffix': 'w', 'atSeconds': 7200, 'atSecondsTruncated': 7200,
                                  'deltaOffset': '1:00' if sv else '0', 'deltaSeconds': sv, 'deltaSecondsTruncated': sv,
                                  'letter': 'D' if sv else 'S', 'rawLine': 'Rule P ...', 'used': True})
                me = PObj(m, 'Transformer', {'start_year': 2000, 'until_year': 2050, 'scope': 'extended', 'all_removed_policies': {}, 'all_notable_policies': {},
                                             'all_removed_zones': {}, 'all_notable_zones': {}})
                try:
                    a = pev.call(m, 'Transformer._get_anchor_rule', [rules], recv=me)
                except Raised as r_:
                    raise AnalysisError('%s: interpretation raised %s' % (f.loc, r_.what))
                except (KeyError, IndexError, TypeError, AttributeError) as x_:
                    raise AnalysisError('%s: the abstraction of a rule record lacks %r' % (f.loc, x_))
                n += 1
                if not isinstance(a, dict) or 'letter' not in a or 'deltaSeconds' not in a:
                    raise AnalysisError('%s: _get_anchor_rule does not return a rule record' % f.loc)
                if (a['letter'] != 'S' or a['deltaSeconds'] != 0) and bad is None:
                    bad = (rules, a)
    R.analysed['E interpreted policies'] = n
    if bad is not None:
        rules, a = bad
        R.violation('E', c, f.loc, "policy %s: the anchor has LETTER %r and SAVE %r: it is not taken from a rule with rule['deltaSeconds'] == 0 "
                    "(or the copy keeps that rule's LETTER): a policy whose earliest rule is a DST rule gets an anchor with the DST letter, so the zone shows the "
                    "summer abbreviation with the standard offset until its first real transition"
                    % (['%d-%02d-%02d SAVE %d LETTER %s' % (r['fromYear'], r['inMonth'], r['onDayOfMonth'], r['deltaSeconds'], r['letter']) for r in rules],
                       a['letter'], a['deltaSeconds']))


def _alignment_witness(T, yparam, fname, a_eff, want, L):
    """(zone, year) pairs of the shipped basic tables for which "latest rule with FROM below a_eff" and "... below want"
    pick rules with different SAVE or LETTER at this call site; None when the bounds are not yearTiny + constant."""
    from .gnf import Poly
    y0 = Poly.atom(('sym', yparam))
    offs = []
    for p in (a_eff, want, L):
        d = p - y0
        if not d.is_const():
            return None
        offs.append(d.const_value())
    oa, ow, ol = offs
    start, until = T.context['startYear'], T.context['untilYear']

    def latest(rules, thr):
        best = None
        for r in rules:
            if r['fromYearTiny'] < thr:
                key = (r['toYearTiny'] if r['toYearTiny'] < thr else thr - 1, r['inMonth'])
                if best is None or key > best[0]:
                    best = (key, r)
        return best[1] if best else None

    def attrs(r):
        return (0, ord('-')) if r is None else (r['deltaCode'], r['letter'] if r['letter'] != ord('-') else ord('-'))
    out = []
    for short in T.infos:
        eras = T.zone_eras(short)

        def era_at(yt):
            for e in eras:
                if yt < e['untilYearTiny']:
                    return e
            return eras[-1]
        for y in range(start, until):
            yt = y - 2000
            era = era_at(yt + ol)
            if fname == 'addTransitionsForYear' and era is era_at(yt - 1):
                continue
            if fname == 'addTransitionAfterYear' and era is era_at(yt):
                continue
            pol = era['zonePolicy']
            if pol is None:
                continue
            rules = T.policy_rules(pol.name)
            ra, rw = latest(rules, yt + oa), latest(rules, yt + ow)
            if attrs(ra) != attrs(rw):
                out.append('%s in %d (rule %s instead of %s)' % (T.zone_name(short), y, 'none' if ra is None else '%s[%d]' % (ra.owner, ra.index),
                                                                  'none' if rw is None else '%s[%d]' % (rw.owner, rw.index)))
    return out


def prior_rule_eval(R, lib, flp):
    """findLatestPriorRule(policy, A) is interpreted (E-SEQ, typed; the brokers and compareRulesBeforeYear /
    priorYearOfRule through their bodies) on abstract policies of zero to three rules.  Read off: whether a rule whose
    FROM year equals A counts as "before A" (-> strict comparator or not; a rule from A-1 must count, one from A+1 must
    not), and that among the rules that count the result is one that maximises (min(TO year, A-1), month) - the latest
    transition before the year A.  Returns strict (True/False) or None when the comparator is neither."""
    from itertools import product
    from .aeval import AEval, AObj, CxxModule, Raised, Ref, cxx_object
    mod = CxxModule(lib, ['ace_time::'])
    NS = 'ace_time::basic::'

    def run(rules, A):
        objs = []
        for (fr, to, mo) in rules:
            o = cxx_object(lib, NS + 'ZoneRule')
            o.attrs.update({'fromYearTiny': fr, 'toYearTiny': to, 'inMonth': mo, 'onDayOfWeek': 0, 'onDayOfMonth': 1})
            objs.append(o)
        pol = cxx_object(lib, NS + 'ZonePolicy')
        pol.attrs.update({'rules': objs, 'numRules': len(objs), 'numLetters': 0})
        br = cxx_object(lib, NS + 'ZonePolicyBroker')
        br.attrs['mZonePolicy'] = pol
        try:
            ev = AEval(module=mod, typed=True, max_steps=20000)
            out = ev.call_function(flp.name, [br, A], chosen=CxxModule._Fn(flp))
        except IndexError:
            return 'reads outside the rules'
        except Raised as r_:
            return 'raises %s' % r_.what
        except AnalysisError as ex:
            if 'step budget' in str(ex) or 'does not terminate' in str(ex):
                return 'does not terminate'
            raise
        if not isinstance(out, AObj) or 'mZoneRule' not in out.attrs:
            raise AnalysisError('%s: the result is not a ZoneRuleBroker' % flp.loc)
        z = out.attrs['mZoneRule']
        if z is None:
            return None
        if isinstance(z, Ref):
            return z.key
        for idx, o in enumerate(objs):
            if o is z:
                return idx
        raise AnalysisError('%s: the result does not designate a rule of the policy' % flp.loc)
    A = 5
    cc = 'BasicZoneProcessor::findLatestPriorRule:comparator'
    below, at, above = run([(A - 1, 20, 3)], A), run([(A, 20, 3)], A), run([(A + 1, 20, 3)], A)
    strict = None if (below != 0 or above is not None or at not in (0, None)) else (at is None)
    R.instance('D', cc, flp.loc, 'rule.fromYearTiny() %s year' % ('?' if strict is None else '<' if strict else '<='))
    if strict is None:
        R.violation('D', cc, flp.loc, 'with year %d: a rule from %d gives %r, from %d gives %r, from %d gives %r: the rules effective before the given year are not '
                    'selected by FROM year < (or <=) year' % (A, A - 1, below, A, at, A + 1, above))
        return None
    if run([], A) is not None:
        R.violation('D', cc, flp.loc, 'an empty policy yields a rule')
    cr = 'BasicZoneProcessor::findLatestPriorRule:ranking'
    n = 0
    bad = None
    cands = [(fr, to, mo) for fr in (A - 3, A - 2, A - 1) for to in range(fr, A + 2) for mo in (3, 10)]
    for k_ in ((2, 3) if R.cfg.tier == 'thorough' else (2,)):
        for rules in product(cands, repeat=k_):
            if k_ == 3 and (rules[0][2] != 3 or rules[1][0] != A - 2):
                continue          # a slice of the triples keeps the count moderate
            key = [(to if to < A else A - 1, mo) for fr, to, mo in rules]
            best = max(key)
            got = run(list(rules), A)
            n += 1
            if not isinstance(got, int) or key[got] != best:
                bad = bad or (rules, got, key.index(best))
    R.instance('D', cr, flp.loc, '%d interpreted policies' % n)
    R.analysed['D interpreted policies'] = n
    if bad is not None:
        rules, got, want = bad
        R.violation('D', cr, flp.loc, 'policy %s, year %d: the result is %s, but the latest transition before the year comes from rule #%d (a rule that expires in or after the '
                    'queried year ranks as year-1; otherwise an expiring rule wins over a later-month rule that is still running)'
                    % (['FROM %d TO %d month %d' % r for r in rules], A, ('rule #%d' % got) if isinstance(got, int) else got, want))
    return strict


def year_alignment_rule(R, lib, T):
    """Each transition the basic processor stores is (era of year L, rule in effect at the start of what the
    transition stands for).  With `latest = findLatestPriorRule(policy, A)` selecting rules whose FROM year is
    below A (the comparator is read from the function), a transition labelled (L, month 1) stands for 1 January
    of L and needs A == L; one labelled (L, month 0) takes its month from the rule, stands for "before year L+1"
    and needs A == L + 1; the era must be findZoneEra(info, L) and the policy must be that era's policy."""
    from .gnf import Canon, Poly
    R.rule('D', 'every stored transition pairs the era of its label year with the latest rule before the instant it stands for', floor=3)
    flp = lib.fns(BASIC + '::findLatestPriorRule')
    if not flp:
        raise AnalysisError('anchor vanished: BasicZoneProcessor::findLatestPriorRule')
    flp = flp[0]
    strict = prior_rule_eval(R, lib, flp)
    if strict is None:
        return
    n_sites = 0
    for fname in ('addTransitionPriorToYear', 'addTransitionsForYear', 'addTransitionAfterYear'):
        fs = lib.fns(BASIC + '::' + fname)
        if not fs:
            raise AnalysisError('anchor vanished: BasicZoneProcessor::%s' % fname)
        f = fs[0]
        env = {}
        latest = {}     # var -> (policy receiver path, A)
        eras = {}       # var -> E
        for s in walk_stmts(f.body):
            if s.k == 'decl' and s.a[2] is not None:
                v = s.a[2]
                while v.k == 'cast':
                    v = v.a[2]
                if v.k == 'call' and v.a[0].endswith('::findLatestPriorRule') and len(v.a[2]) == 2:
                    pol = v.a[2][0]
                    while pol.k == 'cast':
                        pol = pol.a[2]
                    pol_recv = path_of(pol.a[1]) if pol.k == 'call' and pol.a[0].endswith('::zonePolicy') and pol.a[1] is not None else None
                    latest[s.a[0]] = (pol_recv, Canon(env=dict(env), fold_global=lib.global_value)(v.a[2][1]))
                elif v.k == 'call' and v.a[0].endswith('::findZoneEra') and len(v.a[2]) == 2:
                    eras[s.a[0]] = Canon(env=dict(env), fold_global=lib.global_value)(v.a[2][1])
                elif cxx.int_type(s.a[1]) and not any(x.k == 'call' for x in walk_expr(v)) and not any(
                        y.k == 'assign' and y.a[0].k == 'var' and y.a[0].a[0] == s.a[0] for y in walk_stmts(f.body)):
                    # a year held in a local (a parameter of an inlined helper, a hoisted sub-expression)
                    env[s.a[0]] = Canon(env=dict(env), fold_global=lib.global_value)(s.a[2])
            for e0 in stmt_exprs(s):
                for e in walk_expr(e0):
                    if not (e.k == 'call' and e.a[0] == BASIC + '::addTransition' and len(e.a[2]) == 4):
                        continue
                    L = Canon(env=dict(env), fold_global=lib.global_value)(e.a[2][0])
                    M = Canon(env=dict(env), fold_global=lib.global_value)(e.a[2][1])
                    era_v, rule_v = e.a[2][2], e.a[2][3]
                    while era_v.k == 'cast':
                        era_v = era_v.a[2]
                    while rule_v.k == 'cast':
                        rule_v = rule_v.a[2]
                    c = 'BasicZoneProcessor::%s:addTransition@%s' % (fname, (e.loc or '').split(':')[-1])
                    cc = 'BasicZoneProcessor::%s:addTransition(%s)' % (fname, show(rule_v))
                    n_sites += 1
                    R.instance('D', cc, e.loc)
                    ev = path_of(era_v) if era_v.k == 'var' else None
                    if ev in eras:
                        if eras[ev] != L:
                            R.violation('D', cc, e.loc, 'the transition is labelled year %r but carries the era found for year %r' % (L, eras[ev]))
                    rv = path_of(rule_v) if rule_v.k == 'var' else None
                    if rv in latest:
                        pol_recv, A = latest[rv]
                        if not M.is_const():
                            # the month is computed: "the month of this rule" (the meaning of the constant 0), possibly behind a test of
                            # rule.isNull(), is recognised; anything else is left to the interpreted comparisons F / G / H
                            me_ = e.a[2][1]
                            while me_.k == 'cast':
                                me_ = me_.a[2]
                            if me_.k == 'var':
                                d_ = [x for x in walk_stmts(f.body) if x.k == 'decl' and x.a[0] == me_.a[0] and x.a[2] is not None]
                                a_ = [x for x in walk_stmts(f.body) if x.k == 'assign' and x.a[0].k == 'var' and x.a[0].a[0] == me_.a[0]]
                                srcs_ = [x.a[2] for x in d_] + [x.a[1] for x in a_]
                            else:
                                srcs_ = [me_]
                            def strip_(x_):
                                while x_.k == 'cast':
                                    x_ = x_.a[2]
                                return x_
                            srcs_ = [strip_(x_) for x_ in srcs_]
                            of_rule = bool(srcs_) and all(any(c_.k == 'call' and c_.a[0].endswith('::inMonth') and c_.a[1] is not None and path_of(c_.a[1]) == rv
                                                              for c_ in walk_expr(x_)) or (x_.k == 'const' and x_.a[0] == 1 and len(srcs_) > 1) for x_ in srcs_)
                            if not of_rule:
                                R.undecided_obligation('D', cc, e.loc, 'the month argument %r is computed in a way this rule does not follow; the pairing of era, rule and label year '
                                                       'at this site is decided by the interpreted comparisons F / G / H only' % M)
                                continue
                            M = Poly.const(0)
                        a_eff = A if strict else A + Poly.const(1)
                        want = L + Poly.const(1 if M.const_value() == 0 else 0)
                        if a_eff != want:
                            wit = _alignment_witness(T, f.params[0][0], fname, a_eff, want, L)
                            msg = ('the rule is the latest with FROM year below %r, but the transition (label year %r, month %d) stands for '
                                   'the state %s and needs the latest rule below %r' % (
                                       a_eff, L, M.const_value(), 'before year %r' % want if M.const_value() == 0 else 'on 1 January of %r' % L, want))
                            if wit is None:
                                R.violation('D', cc, e.loc, msg + '; the two bounds are not both "the cache year plus a constant", so the effect on the shipped zones cannot be enumerated')
                            elif wit:
                                R.violation('D', cc, e.loc, msg + '; %d shipped (zone, year) pairs get a different rule, e.g. %s' % (len(wit), '; '.join(wit[:3])))
                            else:
                                R.undecided_obligation('D', cc, e.loc, msg + '; no shipped basic zone and year 2000..2049 selects a different rule, so C02 as quantified still holds')
                        if pol_recv is not None and ev is not None and pol_recv != ev:
                            R.violation('D', cc, e.loc, 'the rule is looked up in the policy of era %s but stored with era %s' % (pol_recv, ev))
    if n_sites < 3:
        raise AnalysisError('anchor moved: only %d addTransition sites in the three year helpers' % n_sites)


def run(cfg):
    R = Report('C02', cfg)
    lib = cxx.load_lib(cfg)
    B = tables.CxxTables(cfg, 'zonedb')
    year_alignment_rule(R, lib, B)
    anchor_rule_rule(cfg, R)
    X = tables.CxxTables(cfg, 'zonedbx')
    R.analysed['translation_units'] = ['tu/lib.cpp', 'tu/tables_zonedb.cpp', 'tu/tables_zonedbx.cpp']
    data_rules(cfg, R, lib, B)
    five_slot_rule(cfg, R, lib, B, 'A5')
    feature_rules(cfg, R, lib)
    subset_rules(cfg, R, B, X)
    from . import rules_C04c
    rules_C04c.basic_rule(R, cfg, lib, 'F')
    rules_C04c.shipped_boundary_rule(R, cfg, lib, 'G')
    rules_C04c.shipped_pair_rule(R, cfg, lib, 'H')
    return R


SELFTEST = [
    dict(id='basic-standard-time-suffix-read-as-wall-clock', file='src/ace_time/BasicZoneProcessor.h',
         find='      } else if (atSuffix == basic::ZoneContext::kSuffixS) {\n        return currentBaseOffsetMinutes;',
         replace='      } else if (atSuffix == basic::ZoneContext::kSuffixS) {\n        return prevEffectiveOffsetMinutes;', rule='F'),
    dict(id='basic-era-of-the-until-year', file='src/ace_time/BasicZoneProcessor.h',
         find='        if (yearTiny < era.untilYearTiny()) return era;', replace='        if (yearTiny <= era.untilYearTiny()) return era;', rule='G'),
    dict(id='era-until-month', file='src/ace_time/zonedb/zone_infos.cpp', regex=True, unique=False, nth=3,
         find=r'1 /\*untilMonth\*/', replace='3 /*untilMonth*/', rule='A1'),
    dict(id='two-rules-one-month', file='src/ace_time/zonedb/zone_policies.cpp', regex=True, unique=False, nth=0,
         find=r'(// Rule    AN    2001    2007    -    Oct    lastSun    2:00s    1:00    D\n  \{\n    1 /\*fromYearTiny\*/,\n    7 /\*toYearTiny\*/,\n    )10( /\*inMonth\*/)',
         replace=r'\g<1>3\2', rule='A2', construct='kPolicyAN'),
    dict(id='rule-on-jan-1', file='src/ace_time/zonedb/zone_policies.cpp', regex=True, unique=False, nth=0,
         find=r'(// Rule    AN    2001    2007    -    Oct    lastSun    2:00s    1:00    D\n  \{\n    1 /\*fromYearTiny\*/,\n    7 /\*toYearTiny\*/,\n    )10( /\*inMonth\*/,\n    )7( /\*onDayOfWeek\*/,\n    )0( /\*onDayOfMonth\*/)',
         replace=r'\g<1>1\g<2>0\g<3>1\4', rule='A3'),
    dict(id='letter-is-index', file='src/ace_time/zonedb/zone_policies.cpp', regex=True, unique=False, nth=0,
         find=r"'D' /\*letter\*/", replace='0 /*letter*/', rule='A4'),
    dict(id='cache-capacity-reduced', file='src/ace_time/BasicZoneProcessor.h',
         find='static const uint8_t kMaxCacheEntries = 5;', replace='static const uint8_t kMaxCacheEntries = 3;', rule='A5'),
    dict(id='extra-addTransition-site', file='src/ace_time/BasicZoneProcessor.h',
         find='      addTransition(yearTiny - 1, 0 /*month*/, era, latest);\n',
         replace='      addTransition(yearTiny - 1, 0 /*month*/, era, latest);\n      addTransition(yearTiny - 1, 0 /*month*/, era, latest);\n      addTransition(yearTiny - 1, 0 /*month*/, era, latest);\n', rule='A5'),
    dict(id='year-filter-removed', file='src/ace_time/BasicZoneProcessor.h', regex=True,
         find=r'        if \(\(rule.fromYearTiny\(\) <= yearTiny\) &&\n            \(yearTiny <= rule.toYearTiny\(\)\)\) \{', replace='        {', rule='A5'),
    dict(id='prior-rule-looked-up-a-year-early', file='src/ace_time/BasicZoneProcessor.h',
         find='      basic::ZoneRuleBroker latest = findLatestPriorRule(\n          era.zonePolicy(), yearTiny);', replace='      basic::ZoneRuleBroker latest = findLatestPriorRule(\n          era.zonePolicy(), yearTiny - 1);',
         rule='D', construct='addTransitionPriorToYear'),
    dict(id='prior-comparator-inclusive', file='src/ace_time/BasicZoneProcessor.h',
         find='        if (rule.fromYearTiny() < yearTiny) {', replace='        if (rule.fromYearTiny() <= yearTiny) {', rule='D'),
    dict(id='era-change-bound-without-shipped-effect-silent', file='src/ace_time/BasicZoneProcessor.h',
         find='        basic::ZoneRuleBroker latestPrior = findLatestPriorRule(\n            era.zonePolicy(), yearTiny);', replace='        basic::ZoneRuleBroker latestPrior = findLatestPriorRule(\n            era.zonePolicy(), yearTiny + 1);',
         expect='silent'),
    dict(id='prior-transition-era-of-wrong-year', file='src/ace_time/BasicZoneProcessor.h',
         find='      const basic::ZoneEraBroker era = findZoneEra(mZoneInfo, yearTiny - 1);', replace='      const basic::ZoneEraBroker era = findZoneEra(mZoneInfo, yearTiny);', rule='D', construct='addTransitionPriorToYear'),
    dict(id='after-year-bound-without-shipped-effect-silent', file='src/ace_time/BasicZoneProcessor.h',
         find='      basic::ZoneRuleBroker latest = findLatestPriorRule(\n          eraAfter.zonePolicy(), yearTiny + 1);', replace='      basic::ZoneRuleBroker latest = findLatestPriorRule(\n          eraAfter.zonePolicy(), yearTiny);',
         expect='silent'),
    dict(id='prior-year-of-expiring-rule', file='src/ace_time/BasicZoneProcessor.h', find='      if (rule.toYearTiny() < yearTiny) {\n        return rule.toYearTiny();',
         replace='      if (rule.toYearTiny() <= yearTiny) {\n        return rule.toYearTiny();', rule='D', construct=':ranking'),
    dict(id='anchor-from-any-rule', file='tools/tzdb/transformer.py',
         find="            if (rule['deltaSeconds'] == 0\n                    and rule_date < anchor_info['earliestDate']):", replace="            if rule_date < anchor_info['earliestDate']:", rule='E'),
    dict(id='anchor-guard-nested-silent', file='tools/tzdb/transformer.py',
         find="            if (rule['deltaSeconds'] == 0\n                    and rule_date < anchor_info['earliestDate']):\n                anchor_info['earliestDate'] = rule_date\n                anchor_info['rule'] = rule",
         replace="            if rule['deltaSeconds'] == 0:\n                if rule_date < anchor_info['earliestDate']:\n                    anchor_info['earliestDate'] = rule_date\n                    anchor_info['rule'] = rule", expect='silent'),
    dict(id='basic-filter-unscoped', file='tools/tzdb/transformer.py',
         find="        if self.scope == 'basic':\n            rules_map = self._remove_rules_long_dst_letter(rules_map)",
         replace="        if self.scope == 'extended':\n            rules_map = self._remove_rules_long_dst_letter(rules_map)", rule='B4'),
    dict(id='basic-filter-result-dropped', file='tools/tzdb/transformer.py',
         find="            rules_map = self._remove_rules_with_border_transitions(rules_map)",
         replace="            self._remove_rules_with_border_transitions(rules_map)", rule='B3'),
    dict(id='until-filter-call-deleted', file='tools/tzdb/transformer.py',
         find="        if self.scope == 'basic':\n            zones_map = self._remove_zone_until_year_only_false(zones_map)\n", replace='', rule='B1'),
    dict(id='month-filter-counts-from-year-only', file='tools/tzdb/transformer.py',
         find="                for year in range(from_year, to_year + 1):\n                    key = (name, year, month)",
         replace="                for year in range(from_year, from_year + 1):\n                    key = (name, year, month)", rule='B2'),
    dict(id='border-filter-ignores-weekday-form', file='tools/tzdb/transformer.py',
         find="                    if month == 1 and on_day_of_month == 1:\n                        valid = False",
         replace="                    if month == 1 and on_day_of_month == 1 and rule['onDayOfWeek'] == 0:\n                        valid = False", rule='B3'),
    dict(id='letter-filter-allows-two', file='tools/tzdb/transformer.py', find="                if len(letter) > 1:\n                    valid = False",
         replace="                if len(letter) > 2:\n                    valid = False", rule='B4'),
    dict(id='basic-filters-through-a-table-silent', file='tools/tzdb/transformer.py',
         find="        if self.scope == 'basic':\n            rules_map = self._remove_rules_with_border_transitions(rules_map)\n        if self.scope == 'basic':\n            rules_map = self._remove_rules_long_dst_letter(rules_map)\n",
         replace="        for only_basic, step in ((True, self._remove_rules_with_border_transitions), (True, self._remove_rules_long_dst_letter)):\n            if only_basic and self.scope != 'basic':\n                continue\n            rules_map = step(rules_map)\n",
         expect='silent'),
    dict(id='basic-era-line-differs', file='src/ace_time/zonedb/zone_infos.cpp', regex=True, unique=False, nth=0,
         find=r'//              0:00    -    GMT\n', replace='//              0:00    -    UTC\n', rule='C'),
    # the two offset accessors through one member template over a pointer to data member: quiet when each names its own field,
    # reported when the two instantiations are swapped
    dict(id='offset-accessors-through-a-member-pointer-template-silent', file='src/ace_time/BasicZoneProcessor.h',
         find='    TimeOffset getUtcOffset(acetime_t epochSeconds) const override {\n      const basic::Transition* transition = getTransition(epochSeconds);\n      int16_t minutes = (transition)\n          ? transition->offsetMinutes : TimeOffset::kErrorMinutes;\n      return TimeOffset::forMinutes(minutes);\n    }\n\n    TimeOffset getDeltaOffset(acetime_t epochSeconds) const override {\n      const basic::Transition* transition = getTransition(epochSeconds);\n      int16_t minutes = (transition)\n          ? transition->deltaMinutes : TimeOffset::kErrorMinutes;\n      return TimeOffset::forMinutes(minutes);\n    }\n',
         replace='    TimeOffset getUtcOffset(acetime_t epochSeconds) const override {\n      return offsetField<&basic::Transition::offsetMinutes>(epochSeconds);\n    }\n\n    TimeOffset getDeltaOffset(acetime_t epochSeconds) const override {\n      return offsetField<&basic::Transition::deltaMinutes>(epochSeconds);\n    }\n\n    template<int16_t basic::Transition::* FIELD>\n    TimeOffset offsetField(acetime_t epochSeconds) const {\n      const basic::Transition* transition = getTransition(epochSeconds);\n      int16_t minutes = (transition)\n          ? transition->*FIELD : TimeOffset::kErrorMinutes;\n      return TimeOffset::forMinutes(minutes);\n    }\n',
         expect='silent'),
    dict(id='offset-accessors-instantiated-with-each-other-s-field', file='src/ace_time/BasicZoneProcessor.h',
         find='    TimeOffset getUtcOffset(acetime_t epochSeconds) const override {\n      const basic::Transition* transition = getTransition(epochSeconds);\n      int16_t minutes = (transition)\n          ? transition->offsetMinutes : TimeOffset::kErrorMinutes;\n      return TimeOffset::forMinutes(minutes);\n    }\n\n    TimeOffset getDeltaOffset(acetime_t epochSeconds) const override {\n      const basic::Transition* transition = getTransition(epochSeconds);\n      int16_t minutes = (transition)\n          ? transition->deltaMinutes : TimeOffset::kErrorMinutes;\n      return TimeOffset::forMinutes(minutes);\n    }\n',
         replace='    TimeOffset getUtcOffset(acetime_t epochSeconds) const override {\n      return offsetField<&basic::Transition::deltaMinutes>(epochSeconds);\n    }\n\n    TimeOffset getDeltaOffset(acetime_t epochSeconds) const override {\n      return offsetField<&basic::Transition::offsetMinutes>(epochSeconds);\n    }\n\n    template<int16_t basic::Transition::* FIELD>\n    TimeOffset offsetField(acetime_t epochSeconds) const {\n      const basic::Transition* transition = getTransition(epochSeconds);\n      int16_t minutes = (transition)\n          ? transition->*FIELD : TimeOffset::kErrorMinutes;\n      return TimeOffset::forMinutes(minutes);\n    }\n',
         rule='F'),
]
