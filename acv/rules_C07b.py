"""C07-R2 by interpretation: what getOffsetDateTime() returns is rebuilt from its own instant.

BasicZoneProcessor::getOffsetDateTime, ExtendedZoneProcessor::getOffsetDateTime and ZonedDateTime::forComponents are
interpreted (E-SEQ, typed; LocalDateTime / OffsetDateTime / TimeOffset through their real bodies) against a *model zone*:
+01:00, DST (+02:00) from 2005-03-27 01:00 UTC to 2005-10-30 01:00 UTC.  The model stands in for the zone data at the
interface the functions themselves use - getUtcOffset(epochSeconds) for the basic processor, the two look-ups of the
transition storage (and init()) for the extended one, TimeZone::getOffsetDateTime for ZonedDateTime.  Local times are taken
well inside each period, one second before / at / inside / at the end of / just after the gap and the overlap.  Decided:

  * the result is self-consistent: the UTC offset it carries is the model's offset at the instant it denotes (it "survives a
    round trip unchanged");
  * a local time that exists exactly once comes back with the same fields;
  * a local time in the gap comes back as an existing local time (normalised), one in the overlap as one of its two readings;
  * when the zone cannot be initialised the error value comes back."""
import datetime

from .common import AnalysisError

BP = 'ace_time::BasicZoneProcessor'
XP = 'ace_time::ExtendedZoneProcessor'
EPOCH = datetime.datetime(2000, 1, 1)
T1 = int((datetime.datetime(2005, 3, 27, 1, 0, 0) - EPOCH).total_seconds())
T2 = int((datetime.datetime(2005, 10, 30, 1, 0, 0) - EPOCH).total_seconds())
PERIODS = [(None, 60, 0), (T1, 60, 60), (T2, 60, 0)]          # (start epoch seconds, standard offset, DST shift) in minutes


def model_total(e):
    tot = None
    for start, off, delta in PERIODS:
        if start is None or e >= start:
            tot = off + delta
    return tot


LOCALS = [(2005, 1, 15, 12, 0, 0), (2005, 3, 27, 1, 59, 59), (2005, 3, 27, 2, 0, 0), (2005, 3, 27, 2, 30, 0), (2005, 3, 27, 2, 59, 59), (2005, 3, 27, 3, 0, 0),
          (2005, 7, 1, 0, 0, 0), (2005, 10, 30, 1, 59, 59), (2005, 10, 30, 2, 0, 0), (2005, 10, 30, 2, 30, 0), (2005, 10, 30, 2, 59, 59), (2005, 10, 30, 3, 0, 0),
          (2005, 12, 31, 23, 59, 59), (2004, 2, 29, 23, 0, 0)]


def readings(fields):
    """the instants (epoch seconds, total offset) at which the model zone shows this local time"""
    loc = int((datetime.datetime(*fields) - EPOCH).total_seconds())
    out = []
    for tot in (60, 120):
        e = loc - 60 * tot
        if model_total(e) == tot:
            out.append((e, tot))
    return out


def normalised_rules(R, lib, ob):
    from .aeval import AEval, AObj, CxxModule, Raised, cxx_object
    mod = CxxModule(lib, ['ace_time::'])

    def offset_obj(minutes):
        o = cxx_object(lib, 'ace_time::TimeOffset')
        o.attrs['mMinutes'] = minutes
        return o

    def transition_obj(off, delta):
        t = cxx_object(lib, 'ace_time::extended::Transition')
        t.attrs['offsetMinutes'] = off
        t.attrs['deltaMinutes'] = delta
        return t
    trans = [transition_obj(off, delta) for (_s, off, delta) in PERIODS]

    def plain_call(f, args, recv=None, intr=None):
        return AEval(module=mod, intrinsics=intr or {}, typed=True, max_steps=200000).call_function(f.name, list(args), recv=recv, chosen=CxxModule._Fn(f))

    def fn(q, nparams=None):
        fs = [f for f in lib.fns(q) if nparams is None or len(f.params) == nparams]
        if not fs:
            raise AnalysisError('anchor vanished: %s' % q)
        return fs[0]
    ldt_for = fn('ace_time::LocalDateTime::forComponents', 6)
    ldt_epoch = fn('ace_time::LocalDateTime::toEpochSeconds', 0)
    odt_epoch = fn('ace_time::OffsetDateTime::toEpochSeconds', 0)
    odt_err = fn('ace_time::OffsetDateTime::isError', 0)
    getters = {k: fn('ace_time::OffsetDateTime::' + k, 0) for k in ('year', 'month', 'day', 'hour', 'minute', 'second')}
    odt_off = fn('ace_time::OffsetDateTime::timeOffset', 0)
    to_min = fn('ace_time::TimeOffset::toMinutes', 0)

    def describe(odt):
        if not isinstance(odt, AObj):
            return None
        if plain_call(odt_err, [], recv=odt):
            return 'error'
        e = plain_call(odt_epoch, [], recv=odt)
        tot = plain_call(to_min, [], recv=plain_call(odt_off, [], recv=odt))
        fields = tuple(plain_call(g, [], recv=odt) for g in getters.values())
        return (e, tot, fields)

    def find_for_seconds(ev, recv, args):
        e = args[0]
        hit = None
        for (start, _o, _d), t in zip(PERIODS, trans):
            if start is None or e >= start:
                hit = t
        return hit

    def find_for_datetime(ev, recv, args):
        ldt = args[0]
        loc = plain_call(ldt_epoch, [], recv=ldt)
        hit = None
        for (start, off, delta), t in zip(PERIODS, trans):
            # a transition starts, on the wall clock it introduces, at start + its own total offset
            if start is None or loc >= start + 60 * (off + delta):
                hit = t
        return hit
    state = {'init': True}
    intr_basic = {BP + '::getUtcOffset': lambda ev, recv, args: offset_obj(model_total(args[0])), BP + '::init': lambda ev, recv, args: 1 if state['init'] else 0}
    intr_ext = {XP + '::init': lambda ev, recv, args: 1 if state['init'] else 0,
                'ace_time::extended::TransitionStorage::findTransition': find_for_seconds,
                'ace_time::extended::TransitionStorage::findTransitionForDateTime': find_for_datetime,
                'ace_time::logging::printf': lambda ev, recv, args: None}
    for cls, intr in ((BP, intr_basic), (XP, intr_ext)):
        f = fn(cls + '::getOffsetDateTime', 1)
        bad = None
        n = 0
        try:
            for fields in LOCALS:
                ldt = plain_call(ldt_for, list(fields))
                proc = cxx_object(lib, cls)
                state['init'] = True
                got = describe(plain_call(f, [ldt], recv=proc, intr=intr))
                n += 1
                rs = readings(fields)
                txt = '%04d-%02d-%02d %02d:%02d:%02d' % fields
                if got is None or got == 'error':
                    bad = bad or 'local time %s in the model zone (+01:00, DST from 2005-03-27 to 2005-10-30): the result is %s' % (txt, 'the error value' if got == 'error' else 'not an OffsetDateTime')
                    continue
                e, tot, out_fields = got
                if model_total(e) != tot:
                    bad = bad or ('local time %s: the result denotes the instant %d with a UTC offset of %d minutes, but the zone is at %d minutes at that instant: '
                                  'the date-time does not survive a round trip through its own instant' % (txt, e, tot, model_total(e)))
                elif len(rs) == 1 and (out_fields != fields or (e, tot) != rs[0]):
                    bad = bad or 'local time %s exists exactly once (offset %d min) but comes back as %s with offset %d min' % (txt, rs[0][1], out_fields, tot)
                elif len(rs) == 2 and (e, tot) not in rs:
                    bad = bad or 'local time %s exists twice and comes back as neither of its two readings (%s, offset %d min)' % (txt, out_fields, tot)
                elif len(rs) == 0:
                    loc_out = int((datetime.datetime(*out_fields) - EPOCH).total_seconds())
                    if loc_out - 60 * tot != e or not readings(out_fields):
                        bad = bad or 'local time %s does not exist (gap) and comes back as %s with offset %d min, which is not an existing local time' % (txt, out_fields, tot)
            # a zone that cannot be initialised
            state['init'] = False
            got = describe(plain_call(f, [plain_call(ldt_for, list(LOCALS[0]))], recv=cxx_object(lib, cls), intr=intr))
            n += 1
            if got != 'error':
                bad = bad or 'init() fails and the result is %r, not the error value' % (got,)
        except Raised as x_:
            bad = bad or 'interpretation raises %s' % x_.what
        ob('R2', f.name, f.loc, bad is None, bad or '')
        R.note('%s: %d local times interpreted against the model zone' % (f.name, n))
    # ZonedDateTime::forComponents: the date-time is what the zone makes of the components, and the zone is kept
    f = fn('ace_time::ZonedDateTime::forComponents')
    marker = cxx_object(lib, 'ace_time::OffsetDateTime')
    seen = {}

    def tz_get(ev, recv, args):
        seen['tz'] = recv
        seen['ldt'] = args[0]
        return marker
    tz = cxx_object(lib, 'ace_time::TimeZone')
    bad = None
    try:
        args = []
        comps = iter((2005, 3, 27, 2, 30, 0))
        for (_pn, pt_) in f.params:
            args.append(tz if 'TimeZone' in (pt_ or '') else next(comps))
        z = plain_call(f, args, intr={'ace_time::TimeZone::getOffsetDateTime': tz_get})
        want_fields = (2005, 3, 27, 2, 30, 0)
        asked = tuple(plain_call(fn('ace_time::LocalDateTime::' + k, 0), [], recv=seen['ldt']) for k in ('year', 'month', 'day', 'hour', 'minute', 'second')) if 'ldt' in seen else None
        if not isinstance(z, AObj) or getattr(seen.get('tz'), 'oid', None) != tz.oid or asked != want_fields:
            bad = 'forComponents(2005, 3, 27, 2, 30, 0, tz) does not ask tz.getOffsetDateTime() for these components (asked: %r)' % (asked,)
        elif not any(getattr(v, 'oid', None) == marker.oid for v in z.attrs.values()) or not any(getattr(v, 'oid', None) == tz.oid for v in z.attrs.values()):
            bad = 'the ZonedDateTime returned does not hold the date-time the zone answered together with that zone'
    except Raised as x_:
        bad = 'interpretation raises %s' % x_.what
    ob('R2', f.name, f.loc, bad is None, bad or '')
