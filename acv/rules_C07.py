"""C07 - local time resolution (structural clauses): canonical date tuples behind the lexicographic look-up,
results rebuilt from their own instant, 'last transition whose start <= query' look-up shape."""
from .common import AnalysisError, Report
from . import cxx, tables
from .absint import AbsInt, DBM, INF
from .gnf import SymExec, Poly, poly_key_str
from .ir import walk_stmts, walk_expr, all_exprs, show
from .paths import path_of

META = {
    'explanation': 'E-ABS interval analysis of ExtendedZoneProcessor::normalizeDateTuple for the range of minutes that the callers '
                   'can hand it (derived from the shipped tables: largest AT/UNTIL time, range of standard offsets and DST shifts): '
                   'the minutes component must come out inside [0, 1439], otherwise the lexicographic comparison of '
                   '(year, month, day, minutes) in findTransitionForDateTime is not the order of time; both getOffsetDateTime() and '
                   'ZonedDateTime::forComponents interpreted (E-SEQ, typed) against a model zone with one DST period, at the interface they '
                   'themselves use - getUtcOffset(e), the look-ups of the transition storage, TimeZone::getOffsetDateTime '
                   '(acv/rules_C07b.py); the two look-ups '
                   'interpreted (E-SEQ, typed, DateTuple operators and LocalDateTime accessors through their bodies) on pools of '
                   '0..4 transitions with queries before, at, one unit around and between every start; getOffsetDateTime() of both processors interpreted '
                   'in full (no stand-in for the zone) on the model zones of acv/rules_C04c.py, on the local times one second before / at / inside / '
                   'at the end of / after every gap and overlap of 2004..2006, against the timeline of the interpreted reference (R4).',
    'decided': 'date tuples are canonical (0 <= minutes < 1440) after normalisation for every input the tables can produce; the '
               'result of getOffsetDateTime() carries the offset the zone has at the instant the result denotes, for local times inside '
               'each period and one second before / at / inside / at the end of / after the gap and the overlap; a local time that exists '
               'once comes back unchanged, one in the gap as an existing time, one in the overlap as one of its two readings; a failed '
               'init() gives the error value; ZonedDateTime::forComponents returns what the time zone returned; both look-ups return the last '
               'transition whose start is <= the query; on the model zones a local time that exists twice comes back as one of its readings (the later '
               'one from the extended processor), one in a gap as the instant the offset before the gap gives',
    'not_decided': 'which occurrence is chosen in the overlaps and gaps of zones unlike the model zones (behavioural)',
    'assumptions': ['clang 14 parser', 'ranges of AT times, offsets and DST shifts are those of the shipped zonedbx tables'],
}

XP = 'ace_time::ExtendedZoneProcessor'
BP = 'ace_time::BasicZoneProcessor'


def _P(k):
    return Poly(dict(k))


def _atom(p):
    if len(p.t) == 1:
        (k, v), = p.t.items()
        if len(k) == 1 and v == 1:
            return k[0]
    return None


def table_ranges(cfg, lib):
    """Per zone of zonedbx: AT/UNTIL minutes, standard offsets, DST shifts (read through the decoder bodies);
    returns the hull of the minutes values the callers of normalizeDateTuple can produce, and the per-zone data."""
    from .ceval import CEval, Obj
    from .rules_C12 import typed_obj, broker_field
    from .tables import Ref
    T = tables.CxxTables(cfg, 'zonedbx')
    ev = CEval(lib)
    ns = 'ace_time::extended::'
    rf, ef = broker_field(lib, ns + 'ZoneRuleBroker'), broker_field(lib, ns + 'ZoneEraBroker')
    at = lib.fn(ns + 'ZoneRuleBroker::atTimeMinutes')
    rd = lib.fn(ns + 'ZoneRuleBroker::deltaMinutes')
    ut = lib.fn(ns + 'ZoneEraBroker::untilTimeMinutes')
    eo = lib.fn(ns + 'ZoneEraBroker::offsetMinutes')
    ed = lib.fn(ns + 'ZoneEraBroker::deltaMinutes')
    pol = {}
    for pname in T.policies:
        ats, ds = [], []
        for e in T.policy_rules(pname):
            o = Obj({rf: typed_obj(lib, ns + 'ZoneRule', e.cells)})
            ats.append(ev.call(at, o, ()))
            ds.append(ev.call(rd, o, ()))
        pol[pname] = (ats, ds)
    lo, hi = 0, 0
    worst = {}
    amax = 0
    for short in T.infos:
        ms, totals, pairs = [0], [], []
        for e in T.zone_eras(short):
            o = Obj({ef: typed_obj(lib, ns + 'ZoneEra', e.cells)})
            off = ev.call(eo, o, ())
            ms.append(ev.call(ut, o, ()))
            deltas = [ev.call(ed, o, ())]
            p = e['zonePolicy']
            if isinstance(p, Ref) and p.name in pol:
                ms.extend(pol[p.name][0])
                deltas = pol[p.name][1] + [0]
            for d in deltas:
                pairs.append((off, d))
                totals.append(off + d)
        amax = max(amax, max(ms))
        zlo, zhi = 0, 0
        for m in (0, max(ms)):
            for (o_, d_) in pairs:
                for v in (m - d_, m - (d_ + o_), m + d_, m - o_, m + o_, m + (o_ + d_)):
                    zlo, zhi = min(zlo, v), max(zhi, v)
        S = max(totals) - min(totals)
        zlo, zhi = min(zlo, 0 - S), max(zhi, 1439 + S)
        if zlo < lo:
            lo = zlo
            worst['lo'] = short
        if zhi > hi:
            hi = zhi
            worst['hi'] = short
    return lo, hi, amax, worst


def run(cfg):
    R = Report('C07', cfg)
    lib = cxx.load_lib(cfg)
    R.analysed['translation_units'] = ['tu/lib.cpp', 'tu/tables_zonedbx.cpp']
    R.rule('R1', 'normalizeDateTuple leaves 0 <= minutes < 1440 for every input the callers can produce', floor=3)
    R.rule('R2', 'results are rebuilt from their own instant (normalised by construction)', floor=3)
    R.rule('R3', 'look-ups return the last transition whose start <= query', floor=2)

    def ob(rid, c, loc, ok, msg):
        R.instance(rid, c, loc)
        if not ok:
            R.violation(rid, c, loc, msg)
    lo, hi, amax, worst = table_ranges(cfg, lib)
    R.analysed['table_ranges'] = {'max_at_minutes': amax, 'zones_giving_the_extremes': worst}
    R.analysed['normalize_input_minutes'] = [lo, hi]
    f = lib.fn(XP + '::normalizeDateTuple')
    p0 = f.params[0][0]
    var = p0 + '.minutes'
    ai = AbsInt(fold_global=lib.global_value)
    st = DBM()
    ai.types[var] = (16, True)
    st.add(var, '0', hi)
    st.add('0', var, -lo)
    out = ai.run(f.body, st)
    exits = [s_ for _r, s_ in ai.ret_states]
    if not out.bottom:
        exits.append(out)
    los = [e.bounds(var)[0] for e in exits]
    his = [e.bounds(var)[1] for e in exits]
    glo, ghi = min(los), max(his)
    ob('R1', f.name, f.loc, glo >= 0 and ghi <= 1439,
       'for minutes in [%d, %d] (range the shipped tables can produce) the result ranges over [%s, %s]: a start time such as '
       '(day, -60) compares after (day-1, 1410) although it is earlier, so findTransitionForDateTime picks the wrong side of a '
       'transition at local midnight' % (lo, hi, _b(glo), _b(ghi)))
    # the function must keep (year, month, day) consistent: the folding branches move the date by one day
    calls = [e.a[0].split('::')[-1] for e in all_exprs(f.body) if e.k == 'call']
    ob('R1', f.name + ':date-carry', f.loc, 'decrementOneDay' in calls and 'incrementOneDay' in calls,
       'normalisation does not carry into the date with incrementOneDay/decrementOneDay')
    # every DateTuple that is compared lexicographically is normalised first
    g = lib.fn(XP + '::generateStartUntilTimes')
    okn = False
    for s in walk_stmts(g.body):
        if s.k == 'expr' and s.a[0].k == 'call' and s.a[0].a[0].endswith('::normalizeDateTuple') and s.a[0].a[2]:
            a = s.a[0].a[2][0]
            if 'startDateTime' in show(a):
                okn = True
    ob('R1', g.name + ':startDateTime', g.loc, okn, 'startDateTime is not passed through normalizeDateTuple before it is used for look-ups')
    # ---- R2: the three entry points interpreted against a model zone (acv/rules_C07b.py)
    from . import rules_C07b
    rules_C07b.normalised_rules(R, lib, ob)
    from . import rules_C04c
    rules_C04c.local_time_rule(R, cfg, lib, 'R4')
    # ---- R3 look-ups, interpreted on abstract pools
    for name, res in lookup_eval(R.cfg, lib).items():
        f, bad, n = res['c']
        R.instance('R3', f.name, f.loc, '%d interpreted look-ups' % n)
        if bad:
            R.violation('R3', f.name, f.loc, bad)
    return R


CMP_CALLS = {'ace_time::extended::operator<': '<', 'ace_time::extended::operator>': '>', 'ace_time::extended::operator<=': '<=',
             'ace_time::extended::operator>=': '>=', 'ace_time::extended::operator==': '=='}


def lookup_eval(cfg, lib):
    """The look-ups of the transition cache are interpreted (E-SEQ: the C++ side typed, the brokers / DateTuple comparison
    operators / LocalDateTime accessors through their bodies; the Python side over its ast) on abstract pools of 0..4
    transitions with strictly ascending start times, with queries before, at, one unit around and between every start.
    Expected of both: the last transition whose start <= query, none when the query lies before the first start.
    -> {'findTransition': {'c': (function, first discrepancy or None, look-ups), 'py': (...)}, 'findTransitionForDateTime': ...}"""
    import datetime as _dt
    from .aeval import AEval, AObj, CxxModule, Raised, cxx_object
    from .pyeval import PyEval, PObj, Raised as PRaised
    from . import py as _py
    NS = 'ace_time::extended::'
    mod = CxxModule(lib, ['ace_time::'])
    size = None
    for n_, t_, _x in lib.fields(NS + 'TransitionStorage'):
        if n_ == 'mTransitions' and '[' in (t_ or ''):
            size = int(t_[t_.index('[') + 1:t_.index(']')])
    if not size:
        raise AnalysisError('TransitionStorage::mTransitions: array size not found')
    zs = _py.load(cfg, 'tools/zonedb/zone_specifier.py')
    pev = PyEval(cfg)
    DT = pev.global_name(zs, 'DateTuple', zs.rel)
    out = {}
    # starts: day 6, 12, 18, 24 of March 2001 at 02:00; epoch seconds 1000, 2000, ...
    days = [6, 12, 18, 24]
    for cname, pname, kind in (('findTransition', 'ZoneSpecifier._find_transition_for_seconds', 'sec'),
                               ('findTransitionForDateTime', 'ZoneSpecifier._find_transition_for_datetime', 'dt')):
        fs = lib.fns(NS + 'TransitionStorage::' + cname)
        if not fs:
            raise AnalysisError('anchor vanished: TransitionStorage::%s' % cname)
        cf = fs[0]
        pf = zs.fn(pname)
        cbad = pbad = None
        cn = pn = 0
        for n in range(0, 5):
            if kind == 'sec':
                starts = [1000 * (i + 1) for i in range(n)]
                queries = sorted({q for s in starts for q in (s - 1, s, s + 1, s + 500)} | {0, 999999})
            else:
                starts = [(1, 3, days[i], 120) for i in range(n)]
                queries = sorted({q for (y, m, d, mi) in starts for q in ((y, m, d, mi - 1), (y, m, d, mi), (y, m, d, mi + 1), (y, m, d + 5, 0), (y, m, d - 1, 1439))}
                                 | {(0, 12, 31, 0), (1, 12, 1, 0), (1, 2, 28, 1439)})
            for q in queries:
                want = None
                for i, s in enumerate(starts):
                    if s <= q:
                        want = i
                # C++
                objs = []
                for i in range(size):
                    o = cxx_object(lib, NS + 'Transition')
                    if i < n:
                        if kind == 'sec':
                            o.attrs['startEpochSeconds'] = starts[i]
                        else:
                            y, m, d, mi = starts[i]
                            o.attrs['startDateTime'].attrs.update({'yearTiny': y, 'month': m, 'day': d, 'minutes': mi, 'suffix': 0})
                            o.attrs['transitionTime'].attrs.update({'yearTiny': 99, 'month': 1, 'day': 1, 'minutes': 0, 'suffix': 0})
                    objs.append(o)
                pool = AObj({'mTransitions': objs, 'mIndexPrior': n, 'mIndexCandidates': n, 'mIndexFree': n, 'mHighWater': 0, 'mPool': None},
                            oid='pool', cls=NS + 'TransitionStorage', ftypes={'mIndexPrior': (8, False), 'mIndexCandidates': (8, False), 'mIndexFree': (8, False), 'mHighWater': (8, False)})
                if kind == 'sec':
                    arg = q
                else:
                    arg = cxx_object(lib, 'ace_time::LocalDateTime')
                    arg.attrs['mLocalDate'].attrs.update({'mYearTiny': q[0], 'mMonth': q[1], 'mDay': q[2]})
                    arg.attrs['mLocalTime'].attrs.update({'mHour': q[3] // 60, 'mMinute': q[3] % 60, 'mSecond': 0})
                try:
                    ev = AEval(module=mod, intrinsics={'ace_time::logging::printf': lambda e_, r_, a_: None}, typed=True, max_steps=20000)
                    r = ev.call_function(cf.name, [arg], recv=pool, chosen=CxxModule._Fn(cf))
                    got = next((i for i, o in enumerate(objs) if o is r), None) if r is not None else None
                    if r is not None and got is None:
                        got = 'an object outside the pool'
                except IndexError:
                    got = 'a read outside the pool'
                except Raised as x_:
                    got = 'raises %s' % x_.what
                except AnalysisError as x_:
                    if 'step budget' in str(x_) or 'does not terminate' in str(x_):
                        got = 'no termination'
                    else:
                        raise
                cn += 1
                if got != want and cbad is None:
                    cbad = 'pool with starts %s, query %s: the look-up returns %s, the last transition that starts at or before the query is %s' % (
                        starts, q, 'nothing' if got is None else ('transition #%s' % got if isinstance(got, int) else got), 'none' if want is None else '#%d' % want)
                # Python
                trs = []
                for i in range(n):
                    if kind == 'sec':
                        trs.append(PObj(zs, 'Transition', {'startEpochSecond': starts[i], 'startDateTime': None, 'transitionTime': None}))
                    else:
                        y, m, d, mi = starts[i]
                        trs.append(PObj(zs, 'Transition', {'startDateTime': pev.apply(DT, [], dict(y=2000 + y, M=m, d=d, ss=mi * 60, f='w')),
                                                           'transitionTime': pev.apply(DT, [], dict(y=2099, M=1, d=1, ss=0, f='w')), 'startEpochSecond': None}))
                me = PObj(zs, 'ZoneSpecifier', {'transitions': trs, 'debug': False})
                if kind == 'sec':
                    parg = q
                else:
                    try:
                        parg = _dt.datetime(2000 + q[0], q[1], q[2], q[3] // 60, q[3] % 60, 0)
                    except ValueError:
                        parg = None          # a day the calendar does not have: no Python query for it
                if parg is not None:
                    try:
                        pev.steps = 0
                        r = pev.call(zs, pname, [parg], recv=me)
                        gotp = next((i for i, o in enumerate(trs) if o is r), None) if r is not None else None
                        if r is not None and gotp is None:
                            gotp = 'an object outside the list'
                    except PRaised as x_:
                        gotp = 'raises %s' % x_.what
                    pn += 1
                    if gotp != want and pbad is None:
                        pbad = 'transitions starting at %s, query %s: the look-up returns %s, the last transition that starts at or before the query is %s' % (
                            starts, q, 'nothing' if gotp is None else ('transition #%s' % gotp if isinstance(gotp, int) else gotp), 'none' if want is None else '#%d' % want)
        out[cname] = {'c': (cf, cbad, cn), 'py': (pf, pbad, pn)}
    return out


def lookup_shape(f, key, lang='c', fold_global=None):
    """The look-up loop keeps the last element whose `key` field is <= the query: its body is summarised path by path
    (E-GNF) and every feasible path must be either  start > query -> leave the loop, nothing recorded  or
    start <= query -> record the element and go on.  How the test is spelled (operand order, negation, if/elif) is
    immaterial."""
    from .gnf import cmp_formula, f_not, formulas_equivalent, formula_atoms, formula_str
    loops = [s for s in walk_stmts(f.body) if s.k == 'loop']
    if len(loops) != 1:
        return False, 'expected one loop over the transitions'
    body = loops[0].a[4]
    rets = [s for s in f.body if s.k == 'return' and s.a[0] is not None]
    res = path_of(rets[-1].a[0]) if rets else None
    if res is None:
        return False, 'the function does not return a recorded element'
    sx = SymExec(lang=lang, fold_global=fold_global)
    sx.out_params = {res}
    sx.cmp_calls = dict(CMP_CALLS)
    summ = sx.run(f.name, body, {})
    # the start term: a leaf `<element>.<key>` appearing in a guard; the query is the other term of that comparison
    S = Q = None
    others = set()
    for g in summ.guards():
        for at in formula_atoms(g):
            if at[0] != 'atom':
                continue
            lin = _P(at[1]).linear_in()
            if lin is None:
                continue
            syms = [a for a in lin[0] if a[0] == 'sym']
            mine = [a for a in syms if a[1].endswith('.' + key)]
            for a in syms:
                if a[1].split('.')[-1].lower().startswith(('start', 'transition', 'until')) and not a[1].endswith('.' + key):
                    others.add(a[1])
            if len(mine) == 1 and len(lin[0]) == 2 and sorted(lin[0].values()) == [-1, 1] and at[3] == 0:
                S = Poly.atom(mine[0])
                Q = Poly.atom([a for a in lin[0] if a is not mine[0]][0])
    if S is None:
        if others:
            return False, 'the loop compares the query with %s, not with the %s of the element' % (sorted(others)[0], key)
        return False, 'no comparison of the element\'s %s with the query decides the loop' % key
    elem = repr(S)[:-(len(key) + 1)]
    GT = cmp_formula('>', S, Q)
    seen_gt = seen_le = False
    for g, kind, r, eff in summ.paths:
        if formulas_equivalent(g, ('false',))[0]:
            continue
        kept = [v for t, v in eff if t == res]
        if formulas_equivalent(g, GT)[0]:
            seen_gt = True
            if kind != 'break' or kept:
                return False, 'when %s > %r the loop %s (expected: stop, keeping the previous element)' % (
                    key, Q, 'records the element' if kept else 'goes on')
        elif formulas_equivalent(g, f_not(GT))[0]:
            seen_le = True
            if kind != 'fallthrough' or len(kept) != 1 or repr(_P(kept[0])) != elem:
                return False, 'when %s <= %r the loop does not record the element and go on' % (key, Q)
        else:
            return False, 'the loop decides on %s: expected "start > query => stop" / "start <= query => keep"' % formula_str(g)
    if not (seen_gt and seen_le):
        return False, 'the loop does not keep the last element whose %s <= query' % key
    return True, ''


def _all_syms(p, out=None, depth=0):
    """names of all symbol leaves reachable in p"""
    out = set() if out is None else out
    if depth > 12:
        return out
    for a in p.atoms():
        k = a[0]
        if k == 'sym':
            out.add(a[1])
            continue
        if k in ('fn', 'init', 'fstr'):
            keys = [x[2] if (isinstance(x, tuple) and x and x[0] == 'kw') else x for x in a[-1]]
        elif k in ('cmp', 'un'):
            keys = list(a[2:])
        elif k == 'proj':
            keys = [a[2]]
        else:
            keys = [x for x in a[1:] if isinstance(x, tuple)]
        for x in keys:
            try:
                _all_syms(_P(x), out, depth + 1)
            except (TypeError, ValueError):
                pass
    return out


def _fn_atoms(p, out=None, depth=0):
    out = [] if out is None else out
    for a in p.atoms():
        if a[0] == 'fn':
            out.append(a)
            for x in a[2]:
                if isinstance(x, tuple) and not (x and x[0] == 'kw'):
                    try:
                        _fn_atoms(_P(x), out, depth + 1)
                    except Exception:
                        pass
        elif a[0] == 'cond':
            for x in a[1:]:
                try:
                    _fn_atoms(_P(x), out, depth + 1)
                except Exception:
                    pass
        elif a[0] == 'init':
            for x in a[2]:
                try:
                    _fn_atoms(_P(x), out, depth + 1)
                except Exception:
                    pass
    return out


def _b(x):
    return '-inf' if x == -INF else '+inf' if x == INF else str(int(x))


SELFTEST = [
    dict(id='overlap-resolved-to-the-earlier-reading', file='src/ace_time/ExtendedZoneProcessor.h',
         find='        if (candidate->startDateTime > localDate) break;', replace='        if (candidate->startDateTime >= localDate) break;', rule='R4'),
    dict(id='fold-only-whole-days', file='src/ace_time/ExtendedZoneProcessor.h', find='      while (dt->minutes < 0) {', replace='      while (dt->minutes <= -kOneDayAsMinutes) {', rule='R1', construct='normalizeDateTuple'),
    dict(id='upper-fold-dropped', file='src/ace_time/ExtendedZoneProcessor.h', find='      while (kOneDayAsMinutes <= dt->minutes) {', replace='      while (2 * kOneDayAsMinutes <= dt->minutes) {', rule='R1', construct='normalizeDateTuple'),
    dict(id='start-time-not-normalised', file='src/ace_time/ExtendedZoneProcessor.h', find='        normalizeDateTuple(&t->startDateTime);\n', replace='', rule='R1', construct='startDateTime'),
    dict(id='extended-result-not-rebuilt', file='src/ace_time/ExtendedZoneProcessor.h',
         find='      odt = OffsetDateTime::forEpochSeconds(epochSeconds, offset);', replace='      odt = OffsetDateTime::forLocalDateTimeAndOffset(ldt, offset);', rule='R2', construct='ExtendedZoneProcessor::getOffsetDateTime'),
    dict(id='basic-mixes-iterations', file='src/ace_time/BasicZoneProcessor.h',
         find='            epochSeconds = epochSeconds2;\n            offset = offset2;', replace='            epochSeconds = epochSeconds2;\n            offset = offset1;', rule='R2', construct='BasicZoneProcessor::getOffsetDateTime'),
    dict(id='forComponents-drops-zone', file='src/ace_time/ZonedDateTime.h',
         find='      return ZonedDateTime(odt, timeZone);\n    }\n\n    /**\n     * Factory method. Create the ZonedDateTime from epochSeconds', replace='      return ZonedDateTime(odt, TimeZone());\n    }\n\n    /**\n     * Factory method. Create the ZonedDateTime from epochSeconds', rule='R2', construct='forComponents'),
    dict(id='lookup-stops-on-equal', file='src/ace_time/ExtendedZoneProcessor.h',
         find='        if (candidate->startEpochSeconds > epochSeconds) break;', replace='        if (candidate->startEpochSeconds >= epochSeconds) break;', rule='R3'),
    dict(id='lookup-records-before-test', file='src/ace_time/ExtendedZoneProcessor.h',
         find='        if (candidate->startDateTime > localDate) break;\n        match = candidate;', replace='        match = candidate;\n        if (candidate->startDateTime > localDate) break;', rule='R3'),
    dict(id='lookup-operands-swapped-silent', file='src/ace_time/ExtendedZoneProcessor.h',
         find='        if (candidate->startEpochSeconds > epochSeconds) break;', replace='        if (epochSeconds < candidate->startEpochSeconds) break;', expect='silent'),
    dict(id='lookup-negated-test-silent', file='src/ace_time/ExtendedZoneProcessor.h',
         find='        if (candidate->startEpochSeconds > epochSeconds) break;', replace='        if (!(candidate->startEpochSeconds <= epochSeconds)) break;', expect='silent'),
    dict(id='lookup-keep-branch-first-silent', file='src/ace_time/ExtendedZoneProcessor.h',
         find='        if (candidate->startEpochSeconds > epochSeconds) break;\n        match = candidate;',
         replace='        if (candidate->startEpochSeconds <= epochSeconds) {\n          match = candidate;\n        } else {\n          break;\n        }', expect='silent'),
    dict(id='lookup-by-transition-time', file='src/ace_time/ExtendedZoneProcessor.h',
         find='        if (candidate->startDateTime > localDate) break;', replace='        if (candidate->transitionTime > localDate) break;', rule='R3'),
    dict(id='extended-result-offset-in-local-silent', file='src/ace_time/ExtendedZoneProcessor.h',
         find='      odt = OffsetDateTime::forEpochSeconds(epochSeconds, offset);', replace='      odt = OffsetDateTime::forEpochSeconds(epochSeconds, offset);\n      (void) ldt;', expect='silent'),
    dict(id='division-based-normalisation-silent', file='src/ace_time/ExtendedZoneProcessor.h', find='      while (dt->minutes < 0) {', replace='      while (0 > dt->minutes) {', expect='silent'),
]
