"""C03 - the TZ compiler reports everything it does not emit (structural clauses): accounting of every dropped
zone/policy/link, kind consistency of the reason collections, role flow from Transformer.get_data() to the generated
comments, filter chain, duplicate-operand and formatting-arity lints, extractor accounting."""
import ast
import re

from .common import AnalysisError, Report
from . import py
from .ir import E, S, walk_stmts, walk_expr, all_exprs, stmt_exprs, show
from .paths import Engine, Rule, States, path_of

META = {
    'explanation': 'E-PATH over one iteration of every filter loop of tzdb.transformer.Transformer (state: valid flag, reason recorded, '
                   'entry emitted), kind inference for the local reason collections, name/role-preserving data flow from '
                   'Transformer.get_data() through tzcompiler.main, TzDbCollector and the generator constructors to the template '
                   'placeholders, call/assignment chain of transform(), ast lints (identical operands, % formatting arity), and the '
                   'interval rules of the silent "unused rule" removal: linear forms of the bounds passed to find_matching_rules against '
                   'the comparator it applies, and the strict "TO year < year" / "latest date" selection of find_latest_prior_rules.',
    'decided': 'every zone/policy/link a Transformer filter does not pass on is recorded with a reason in a collection of its own '
               'kind that is merged into the matching all_removed_* / all_notable_* attribute; those attributes reach the '
               'generated headers under the matching role; every filter is called and its result is what transform() stores; '
               'no comparison has two identical operands; % formatting operand counts match; the extractor records what it skips; '
               'no rule an era can select (closed year interval of the era, and the latest rule before it) is removed as unused',
    'not_decided': 'that what is emitted has zic\'s semantics at every instant (end-to-end semantic preservation)',
    'assumptions': ['CPython ast', '_add_reason / _merge_reasons are the only writers of the reason collections'],
}

TR = 'tools/tzdb/transformer.py'
EX = 'tools/tzdb/extractor.py'
KINDS = {'zones': 'zones', 'zone': 'zones', 'rules': 'policies', 'policies': 'policies', 'policy': 'policies', 'links': 'links', 'link': 'links'}


def kind_of_name(name):
    n = name.lower()
    for k in ('zones', 'rules', 'policies', 'links'):
        if k in n:
            return KINDS[k]
    for k in ('zone', 'policy', 'link'):
        if k in n:
            return KINDS[k]
    return None


# ---------------------------------------------------------------------------------------------------------
# R1 accounting per loop iteration
# ---------------------------------------------------------------------------------------------------------

class Acct(Rule):
    """state: (valid in {T,F,?}, reasoned, emitted)"""

    def __init__(self, key_var, results_vars, flag_vars):
        self.key, self.results, self.flags = key_var, results_vars, flag_vars
        self.exits = []

    def initial(self):
        return [('?', False, False)]

    def assign(self, s, st, tr):
        if s.k != 'assign':
            return st
        t = s.a[0]
        if t.k == 'var' and t.a[0] in self.flags:
            v = s.a[1]
            if v.k == 'const':
                return ('T' if v.a[0] else 'F', st[1], st[2])
            return ('?', st[1], st[2])
        if t.k == 'index' and t.a[0].k == 'var' and t.a[0].a[0] in self.results and path_of(t.a[1]) == self.key:
            return (st[0], st[1], True)
        return st

    def event(self, e, st, tr):
        if e.k == 'call' and e.a[0] == '_add_reason' and len(e.a[2]) >= 2 and path_of(e.a[2][1]) == self.key:
            return (st[0], True, st[2])
        return st

    def refine(self, cond, st, truth):
        c = cond
        if c.k == 'var' and c.a[0] in self.flags:
            if st[0] == '?':
                return ('T' if truth else 'F', st[1], st[2])
            if (st[0] == 'T') != truth:
                return None
        return st

    def at_exit(self, kind, stmt, st, tr):
        self.exits.append((kind, st, tr, stmt.loc if stmt is not None else None))


def filter_methods(tr):
    """Transformer methods that iterate `X_map.items()` and build a `results` map."""
    out = []
    for q, f in tr.funcs.items():
        if f.cls != 'Transformer':
            continue
        loops = [s for s in f.body if s.k == 'loop' and s.a[0] == 'foreach']
        res = [s.a[0].a[0] for s in f.body if s.k == 'assign' and s.a[0].k == 'var' and s.a[1].k == 'init' and s.a[1].a[0] == 'dict'
               and s.a[0].a[0].startswith('results')]
        if loops and res:
            out.append((f, loops, res))
    return out


def accounting_rules(R, tr):
    R.rule('R1', 'every iteration of a Transformer filter loop either emits the entry or records a reason for it', floor=20)
    R.rule('R2', 'a local reason collection is merged into the all_* attribute of the same kind and category', floor=20)
    R.rule('R3', 'every local reason collection is merged into a self.all_* attribute before the method returns', floor=20)
    fm = filter_methods(tr)
    if len(fm) < 18:
        raise AnalysisError('anchor moved: only %d filter methods with a results map found in Transformer (24 confirmed by hand)' % len(fm))
    R.analysed['filter_methods'] = [f.name for f, _l, _r in fm]
    for f, loops, res in fm:
        for lp in loops:
            init = lp.a[1][0]
            tgt = init.a[0]
            it = init.a[1].a[0]
            if not (it.k == 'call' and it.a[0] == 'items' and it.a[1] is not None):
                continue
            key = None
            if tgt.k == 'init' and tgt.a[1] and tgt.a[1][0].k == 'var':
                key = tgt.a[1][0].a[0]
            if key is None:
                continue
            src = path_of(it.a[1])
            writes_results = any(s.k == 'assign' and s.a[0].k == 'index' and s.a[0].a[0].k == 'var' and s.a[0].a[0].a[0] in res for s in walk_stmts(lp.a[4]))
            if not writes_results:
                continue
            flags = {s.a[0].a[0] for s in walk_stmts(lp.a[4]) if s.k == 'assign' and s.a[0].k == 'var' and s.a[1].k == 'const' and s.a[1].ty == 'bool'}
            rule = Acct(key, set(res), flags)
            eng = Engine(rule)
            init_states = States()
            for st in rule.initial():
                init_states.add(st, ())
            fall, brk, cont = eng.block(lp.a[4], init_states)
            ends = list(fall.items()) + list(cont.items()) + list(brk.items())
            c = 'tzdb.transformer.%s' % f.name
            R.instance('R1', c, lp.loc, 'loop over %s, key %s' % (src, key))
            bad = [(st, trc) for st, trc in ends if not (st[1] or st[2])]
            if bad:
                exc = R1_EXCEPTIONS.get(f.name)
                if exc:
                    R.exception('R1', c, exc)
                else:
                    st, trc = bad[0]
                    R.violation('R1', c, lp.loc, 'an iteration can end without storing results[%s] and without _add_reason(..., %s, ...): the %s '
                                'disappears from the output with no reason recorded' % (key, key, (kind_of_name(src or '') or 'entry').rstrip('s')),
                                detail=list(trc))
        reason_rules(R, tr, f)


R1_EXCEPTIONS = {}


def reason_rules(R, tr, f):
    """R2 / R3 for one method."""
    locs = {}
    for s in walk_stmts(f.body):
        if s.k == 'assign' and s.a[0].k == 'var' and s.a[1].k == 'init' and s.a[1].a[0] == 'dict' and \
                (s.a[0].a[0].startswith('removed_') or s.a[0].a[0].startswith('notable_')):
            locs[s.a[0].a[0]] = s.loc
    if not locs:
        return
    # kind from the keys added
    key_src = {}
    for lp in [s for s in walk_stmts(f.body) if s.k == 'loop' and s.a[0] == 'foreach']:
        init = lp.a[1][0]
        tgt, it = init.a[0], init.a[1].a[0]
        if it.k == 'call' and it.a[0] == 'items' and it.a[1] is not None and tgt.k == 'init' and tgt.a[1] and tgt.a[1][0].k == 'var':
            key_src[tgt.a[1][0].a[0]] = path_of(it.a[1])
    added_kind = {}
    for e in all_exprs(f.body):
        if e.k == 'call' and e.a[0] == '_add_reason' and len(e.a[2]) >= 2 and e.a[2][0].k == 'var':
            coll = e.a[2][0].a[0]
            kv = path_of(e.a[2][1])
            src = key_src.get(kv)
            k = kind_of_name(src) if src else kind_of_name(kv or '')
            if k:
                added_kind.setdefault(coll, set()).add(k)
    merged = {}
    for e in all_exprs(f.body):
        if e.k == 'call' and e.a[0] == '_merge_reasons' and len(e.a[2]) == 2 and e.a[2][1].k == 'var':
            tgt = path_of(e.a[2][0])
            merged.setdefault(e.a[2][1].a[0], []).append((tgt, e.loc))
    for coll, loc in locs.items():
        c = 'tzdb.transformer.%s:%s' % (f.name, coll)
        R.instance('R3', c, loc)
        if coll not in merged:
            R.violation('R3', c, loc, 'reasons collected in %s are never merged into a self.all_* attribute: they do not reach the generated files' % coll)
            continue
        for tgt, mloc in merged[coll]:
            R.instance('R2', c, mloc, '-> %s' % tgt)
            m = re.match(r'^self\.all_(removed|notable)_(\w+)$', tgt or '')
            if not m:
                R.violation('R2', c, mloc, 'reasons are merged into %s, which is not a self.all_removed_* / self.all_notable_* attribute' % tgt)
                continue
            cat, kind = m.group(1), KINDS.get(m.group(2))
            want_cat = coll.split('_')[0]
            kinds = added_kind.get(coll) or {kind_of_name(coll)}
            if cat != want_cat:
                R.violation('R2', c, mloc, '%s reasons are merged into the %s collection %s' % (want_cat, cat, tgt))
            elif kind not in kinds:
                R.violation('R2', c, mloc, 'the keys added to %s are %s names but it is merged into %s: the removals are reported under the wrong heading' %
                            (coll, '/'.join(sorted(k for k in kinds if k)), tgt))


# ---------------------------------------------------------------------------------------------------------
# R4 role flow
# ---------------------------------------------------------------------------------------------------------

def role_of_expr(n):
    """role name carried by an expression of get_data(): self.X -> X ; {.. for .. in self.all_R_K.items()} -> R_K"""
    src = ast.unparse(n)
    m = re.search(r'self\.all_(removed|notable)_(\w+)', src)
    if m:
        return '%s_%s' % (m.group(1), m.group(2))
    m = re.search(r'self\.(\w+)', src)
    return m.group(1) if m else None


def role_rules(cfg, R, tr):
    R.rule('R4', 'roles (map / removed / notable x zones / policies / links / strings) are preserved by every binding from '
                 'Transformer.get_data() to the template placeholders', floor=60)
    tc = py.load(cfg, 'tools/tzcompiler.py')
    col = py.load(cfg, 'tools/tzdb/tzdbcollector.py')
    ar = py.load(cfg, 'tools/zonedb/argenerator.py')
    pg = py.load(cfg, 'tools/zonedb/pygenerator.py')
    zl = py.load(cfg, 'tools/zonedb/zonelistgenerator.py')
    ex = py.load(cfg, EX)
    R.analysed['python_modules'] = [TR, EX, tc.rel, col.rel, ar.rel, pg.rel, zl.rel]
    # (i) get_data tuple -> unpacking in main
    gd = tr.fn('Transformer.get_data')
    rets = [n for n in ast.walk(gd.node) if isinstance(n, ast.Return) and isinstance(n.value, ast.Tuple)]
    if not rets:
        raise AnalysisError('%s: Transformer.get_data() does not return a tuple' % gd.loc)
    roles = [role_of_expr(x) for x in rets[0].value.elts]
    main = tc.fn('main')
    unpack = None
    for n in ast.walk(main.node):
        if isinstance(n, ast.Assign) and isinstance(n.value, ast.Call) and ast.unparse(n.value.func).endswith('transformer.get_data') \
                and isinstance(n.targets[0], ast.Tuple):
            unpack = n
    if unpack is None:
        raise AnalysisError('%s: main() does not unpack transformer.get_data()' % main.loc)
    names = [t.id if isinstance(t, ast.Name) else None for t in unpack.targets[0].elts]
    for i, (r, nme) in enumerate(zip(roles, names)):
        c = 'tzcompiler.main:get_data[%d]' % i
        R.instance('R4', c, tc.loc(unpack), '%s -> %s' % (r, nme))
        if r != nme:
            R.violation('R4', c, tc.loc(unpack), 'position %d of Transformer.get_data() carries %s but is bound to %s' % (i, r, nme))
    if len(roles) != len(names):
        R.instance('R4', 'tzcompiler.main:get_data', tc.loc(unpack))
        R.violation('R4', 'tzcompiler.main:get_data', tc.loc(unpack), 'get_data() returns %d values, main() unpacks %d' % (len(roles), len(names)))
    # extractor -> transformer positional order
    egd = None
    tcall = None
    for n in ast.walk(main.node):
        if isinstance(n, ast.Assign) and isinstance(n.value, ast.Call) and ast.unparse(n.value.func).endswith('extractor.get_data'):
            egd = n
        if isinstance(n, ast.Call) and isinstance(n.func, ast.Name) and n.func.id == 'Transformer':
            tcall = n
    if egd is None or tcall is None:
        raise AnalysisError('%s: extractor.get_data() / Transformer(...) not found in main()' % main.loc)
    ex_ret = [n for n in ast.walk(ex.fn('Extractor.get_data').node) if isinstance(n, ast.Return)][0]
    ex_roles = [role_of_expr(x) for x in ex_ret.value.elts]
    ex_names = [t.id for t in egd.targets[0].elts]
    R.instance('R4', 'tzcompiler.main:extractor.get_data', tc.loc(egd))
    if ex_roles != ex_names:
        R.violation('R4', 'tzcompiler.main:extractor.get_data', tc.loc(egd), 'Extractor.get_data() returns %s, bound to %s' % (ex_roles, ex_names))
    tparams = tr.fn('Transformer.__init__').params[1:]
    for i, a in enumerate(tcall.args):
        c = 'tzcompiler.main:Transformer(arg %d)' % i
        R.instance('R4', c, tc.loc(tcall))
        src = ast.unparse(a)
        if isinstance(a, ast.Name) and a.id != tparams[i] and kind_of_name(a.id) and kind_of_name(tparams[i]) and kind_of_name(a.id) != kind_of_name(tparams[i]):
            R.violation('R4', c, tc.loc(tcall), 'argument %s is passed for parameter %s' % (src, tparams[i]))
    # (ii) keyword bindings name == source in constructor calls
    for mod in (tc, ar, pg, zl):
        for q, f in mod.funcs.items():
            for n in ast.walk(f.node):
                if isinstance(n, ast.Call) and isinstance(n.func, ast.Name) and n.func.id[:1].isupper():
                    for kw in n.keywords:
                        if kw.arg is None:
                            continue
                        v = kw.value
                        src = None
                        if isinstance(v, ast.Name):
                            src = v.id
                        elif isinstance(v, ast.Subscript) and isinstance(v.value, ast.Name) and v.value.id == 'tzdb' and isinstance(v.slice, ast.Constant):
                            src = v.slice.value
                        elif isinstance(v, ast.Attribute) and isinstance(v.value, ast.Name) and v.value.id == 'self':
                            src = v.attr
                        if src is None:
                            continue
                        if not (kind_of_name(kw.arg) or kw.arg.startswith(('removed', 'notable'))):
                            continue
                        c = '%s.%s:%s(%s=)' % (mod.rel.split('/')[-1][:-3], q, n.func.id, kw.arg)
                        R.instance('R4', c, mod.loc(n), '%s=%s' % (kw.arg, src))
                        if src != kw.arg:
                            R.violation('R4', c, mod.loc(n), 'keyword %s receives %s' % (kw.arg, src))
    # (iii) TzDbCollector: 'key': param
    ci = col.fn('TzDbCollector.__init__')
    for n in ast.walk(ci.node):
        if isinstance(n, ast.Dict):
            for k, v in zip(n.keys, n.values):
                if isinstance(k, ast.Constant) and isinstance(v, ast.Name):
                    c = 'tzdbcollector.TzDbCollector.__init__:%s' % k.value
                    R.instance('R4', c, col.loc(n))
                    if k.value != v.id:
                        R.violation('R4', c, col.loc(k), "tzdb['%s'] is filled from %s" % (k.value, v.id))
    # (iv) constructor copies self.attr = param
    for mod in (ar, pg, zl):
        for q, f in mod.funcs.items():
            if not q.endswith('.__init__'):
                continue
            for n in ast.walk(f.node):
                if isinstance(n, ast.Assign) and isinstance(n.targets[0], ast.Attribute) and ast.unparse(n.targets[0].value) == 'self':
                    attr = n.targets[0].attr
                    v = n.value
                    src = v.id if isinstance(v, ast.Name) else (v.slice.value if isinstance(v, ast.Subscript) and isinstance(v.slice, ast.Constant) and ast.unparse(v.value) == 'tzdb' else None)
                    if src is None or not (kind_of_name(attr) or attr.startswith(('removed', 'notable'))):
                        continue
                    c = '%s.%s:self.%s' % (mod.rel.split('/')[-1][:-3], q, attr)
                    R.instance('R4', c, mod.loc(n))
                    if src != attr:
                        R.violation('R4', c, mod.loc(n), 'self.%s is initialised from %s' % (attr, src))
    # (v) each removed_/notable_ role reaches a placeholder of the header it belongs to
    want = {'ZoneInfosGenerator.generate_infos_h': ['removed_zones', 'notable_zones', 'removed_links', 'notable_links'],
            'ZonePoliciesGenerator.generate_policies_h': ['removed_policies', 'notable_policies']}
    for fn_name, attrs in want.items():
        f = ar.fn(fn_name)
        for attr in attrs:
            c = 'argenerator.%s:%s' % (fn_name, attr)
            R.instance('R4', c, f.loc)
            msg = reaches_placeholder(ar, f, attr)
            if msg:
                R.violation('R4', c, f.loc, msg)


def reaches_placeholder(mod, f, attr):
    """for k, reasons in sorted(self.<attr>.items()): acc += ITEM.format(...reasons...) ; FILE.format(..., kw=acc) and '{kw}' in FILE."""
    acc = None
    for n in ast.walk(f.node):
        if isinstance(n, ast.For) and ('self.%s' % attr) in ast.unparse(n.iter):
            for s in n.body:
                if isinstance(s, ast.AugAssign) and isinstance(s.target, ast.Name):
                    txt = ast.unparse(s.value)
                    loopvars = [x.id for x in ast.walk(n.target) if isinstance(x, ast.Name)]
                    if all(v in txt for v in loopvars):
                        acc = s.target.id
                    else:
                        return 'the loop over self.%s does not render both the name and its reasons' % attr
    if acc is None:
        return 'self.%s is never rendered' % attr
    for n in ast.walk(f.node):
        if isinstance(n, ast.Return) and isinstance(n.value, ast.Call) and isinstance(n.value.func, ast.Attribute) and n.value.func.attr == 'format':
            tmpl = n.value.func.value
            tname = tmpl.attr if isinstance(tmpl, ast.Attribute) else None
            kws = [k.arg for k in n.value.keywords if isinstance(k.value, ast.Name) and k.value.id == acc]
            if not kws:
                return 'the rendered %s items (%s) are not passed to the file template' % (attr, acc)
            tv = mod.class_consts.get('%s.%s' % (f.cls, tname))
            if not (isinstance(tv, ast.Constant) and isinstance(tv.value, str)):
                return 'file template %s not found' % tname
            if ('{%s}' % kws[0]) not in tv.value:
                return 'placeholder {%s} is missing from %s: the %s list is computed but not written' % (kws[0], tname, attr)
            return None
    return 'no file template is rendered'


# ---------------------------------------------------------------------------------------------------------
# R5 filter chain
# ---------------------------------------------------------------------------------------------------------

R5_EXCEPTIONS = {'_remove_zones_without_slash': 'commented out upstream in transform() ("# zones_map = self._remove_zones_without_slash(zones_map)")'}


def chain_rules(R, tr):
    R.rule('R5', 'every Transformer filter is called from transform() and its result is what transform() finally stores', floor=24)
    tf = tr.fn('Transformer.transform')
    methods = [f.short for q, f in tr.funcs.items() if f.cls == 'Transformer' and re.match(r'^(_remove_|_create_|remove_|_detect_|_mark_)', f.short)]
    calls = {}
    for n in ast.walk(tf.node):
        if isinstance(n, ast.Call) and isinstance(n.func, ast.Attribute) and ast.unparse(n.func.value) == 'self':
            calls.setdefault(n.func.attr, []).append(n)
    assigned = {}
    for n in ast.walk(tf.node):
        if isinstance(n, ast.Assign) and isinstance(n.value, ast.Call) and isinstance(n.value.func, ast.Attribute) and ast.unparse(n.value.func.value) == 'self':
            tg = n.targets[0]
            names = [x.id for x in ast.walk(tg) if isinstance(x, ast.Name)]
            assigned[n.value.func.attr] = (names, [ast.unparse(a) for a in n.value.args], tr.loc(n))
    stored = {}
    for n in ast.walk(tf.node):
        if isinstance(n, ast.Assign) and isinstance(n.targets[0], ast.Attribute) and ast.unparse(n.targets[0].value) == 'self' and isinstance(n.value, ast.Name):
            stored[n.value.id] = n.targets[0].attr
    for m in sorted(methods):
        c = 'tzdb.transformer.Transformer.transform->%s' % m
        R.instance('R5', c, tf.loc)
        if m not in calls:
            if m in R5_EXCEPTIONS:
                R.exception('R5', c, R5_EXCEPTIONS[m])
            else:
                R.violation('R5', c, tf.loc, 'filter %s is defined but never applied by transform()' % m)
            continue
        if m not in assigned:
            R.violation('R5', c, tr.loc(calls[m][0]), 'the result of %s is discarded' % m)
            continue
        names, args, loc = assigned[m]
        # the map of each kind that goes in must be the variable that is reassigned and finally stored
        for nme in names:
            if nme in stored and stored[nme] != nme:
                R.violation('R5', c, loc, 'result %s is finally stored in self.%s' % (nme, stored[nme]))
        in_maps = [a for a in args if a in ('zones_map', 'rules_map', 'links_map')]
        primary = in_maps[:1] if len(names) == 1 else in_maps
        if m.startswith('remove_links'):
            primary = ['links_map']
        for a in primary:
            if a not in names:
                R.violation('R5', c, loc, '%s(%s) assigns its result to %s: the filtered %s is lost' % (m, ', '.join(args), names, a))
        for nme in names:
            if nme not in stored:
                R.violation('R5', c, loc, 'result variable %s is not what transform() stores at the end' % nme)


# ---------------------------------------------------------------------------------------------------------
# R6 / R7 lints
# ---------------------------------------------------------------------------------------------------------

LINT_FILES = ['tools/tzdb/transformer.py', 'tools/tzdb/extractor.py', 'tools/tzdb/tzdbcollector.py', 'tools/zonedb/argenerator.py',
              'tools/zonedb/pygenerator.py', 'tools/zonedb/ingenerator.py', 'tools/zonedb/zonelistgenerator.py',
              'tools/zonedb/bufestimator.py', 'tools/tzcompiler.py']


def pure(n):
    return not any(isinstance(x, (ast.Call, ast.Await, ast.Yield, ast.NamedExpr)) and not
                   (isinstance(x, ast.Call) and isinstance(x.func, ast.Name) and x.func.id in ('len', 'is_year_tiny', 'int', 'str', 'abs'))
                   for x in ast.walk(n))


def lint_rules(cfg, R):
    R.rule('R6', 'no boolean operation or comparison has two structurally identical operands', floor=100)
    R.rule('R7', '% formatting: the number of conversion specifiers equals the number of operands', floor=25)
    for rel in LINT_FILES:
        m = py.load(cfg, rel)
        modn = rel.split('/')[-1][:-3]
        funcs = {}
        for q, f in m.funcs.items():
            for n in ast.walk(f.node):
                funcs.setdefault(id(n), q)
        for n in ast.walk(m.tree):
            where = funcs.get(id(n), '<module>')
            if isinstance(n, ast.BoolOp):
                c = '%s.%s:boolop@%s' % (modn, where, _norm(ast.unparse(n))[:60])
                R.instance('R6', c, m.loc(n))
                seen = {}
                for v in n.values:
                    k = ast.dump(v)
                    if k in seen and pure(v):
                        R.violation('R6', '%s.%s:duplicate(%s)' % (modn, where, _norm(ast.unparse(v))[:50]), m.loc(n),
                                    'operand "%s" appears twice in "%s": the second test is redundant and another operand is probably missing' % (ast.unparse(v), ast.unparse(n)[:120]))
                    seen[k] = True
            elif isinstance(n, ast.Compare) and len(n.ops) == 1:
                R.instance('R6', '%s.%s:compare@%s' % (modn, where, _norm(ast.unparse(n))[:60]), m.loc(n))
                if ast.dump(n.left) == ast.dump(n.comparators[0]) and pure(n.left):
                    R.violation('R6', '%s.%s:selfcompare(%s)' % (modn, where, _norm(ast.unparse(n))[:50]), m.loc(n), 'an expression is compared with itself: %s' % ast.unparse(n))
            elif isinstance(n, ast.BinOp) and isinstance(n.op, ast.Mod):
                left = n.left
                if isinstance(left, ast.JoinedStr):
                    c = '%s.%s:fstring%%' % (modn, where)
                    R.instance('R7', c, m.loc(n))
                    lits = ''.join(v.value for v in left.values if isinstance(v, ast.Constant) and isinstance(v.value, str))
                    nspec = len(re.findall(r'%(?!%)[-#0 +]*\d*(?:\.\d+)?[sdrfxXeEgGci]', lits))
                    nops = len(n.right.elts) if isinstance(n.right, ast.Tuple) else 1
                    if nspec != nops:
                        R.violation('R7', c, m.loc(n), 'an f-string with %d conversion specifier(s) is %%-formatted with %d operand(s) (%s): raises TypeError '
                                    'instead of recording the message' % (nspec, nops, ast.unparse(n.right)))
                    continue
                s = None
                if isinstance(left, ast.Constant) and isinstance(left.value, str):
                    s = left.value
                elif isinstance(left, ast.BinOp) and isinstance(left.op, ast.Add):
                    parts = []
                    ok = True
                    for x in _flatten_add(left):
                        if isinstance(x, ast.Constant) and isinstance(x.value, str):
                            parts.append(x.value)
                        else:
                            ok = False
                    if ok:
                        s = ''.join(parts)
                if s is None:
                    continue
                c = '%s.%s:%%@%s' % (modn, where, _norm(s)[:40])
                R.instance('R7', c, m.loc(n))
                nspec = len(re.findall(r'%(?!%)[-#0 +]*\d*(?:\.\d+)?[sdrfxXeEgGci]', s))
                if isinstance(n.right, ast.Tuple):
                    nops = len(n.right.elts)
                elif isinstance(n.right, ast.Dict):
                    continue
                else:
                    nops = 1
                    if isinstance(n.right, ast.Name) and nspec > 1:
                        continue     # a tuple-valued variable
                if nspec != nops:
                    R.violation('R7', c, m.loc(n), 'format string has %d conversion specifier(s) but %d operand(s)' % (nspec, nops))


def _flatten_add(n):
    if isinstance(n, ast.BinOp) and isinstance(n.op, ast.Add):
        return _flatten_add(n.left) + _flatten_add(n.right)
    return [n]


def _norm(s):
    return re.sub(r'\s+', '', s)


# ---------------------------------------------------------------------------------------------------------
# R8 extractor accounting
# ---------------------------------------------------------------------------------------------------------

def extractor_rules(cfg, R):
    R.rule('R8', 'every branch of the extractor that does not store the parsed entry records its name in a structure that reaches the '
                 'generated files (a bare counter is not a report)', floor=4)
    ex = py.load(cfg, EX)
    # _process_rules / _process_zones: per inner iteration: _add_item(self.X_map, name, entry) or a name-carrying record
    for fn, store in (('Extractor._process_rules', 'rules_map'), ('Extractor._process_zones', 'zones_map')):
        f = ex.fn(fn)
        for n in ast.walk(f.node):
            if isinstance(n, ast.Try):
                for h in n.handlers:
                    c = 'tzdb.extractor.%s:except' % fn
                    R.instance('R8', c, ex.loc(h))
                    if not records_name(h.body):
                        R.violation('R8', c, ex.loc(h), 'a line that fails to parse is logged and counted, but the %s it belongs to is emitted without it and '
                                    'nothing names it in the output' % ('policy' if 'rules' in fn else 'zone'))
    f = ex.fn('Extractor._process_links')
    for n in ast.walk(f.node):
        if isinstance(n, ast.If) and 'len(lines)' in ast.unparse(n.test):
            c = 'tzdb.extractor.Extractor._process_links:duplicate'
            R.instance('R8', c, ex.loc(n))
            body = n.body if isinstance(n.test, ast.Compare) and isinstance(n.test.ops[0], ast.Gt) else n.orelse
            if not records_name(body):
                R.violation('R8', c, ex.loc(n), 'a link name that occurs more than once is dropped with only a counter increment')
    f = ex.fn('Extractor._parse_zone_file')
    chains = [n for n in ast.walk(f.node) if isinstance(n, ast.If) and 'tag' in ast.unparse(n.test)]
    top = None
    for n in chains:
        if "tag == 'Rule'" in ast.unparse(n.test):
            top = n
    if top is None:
        raise AnalysisError('%s: line classification chain not found' % f.loc)
    cur = top
    while cur.orelse and len(cur.orelse) == 1 and isinstance(cur.orelse[0], ast.If):
        cur = cur.orelse[0]
    c = 'tzdb.extractor.Extractor._parse_zone_file:unrecognised-line'
    R.instance('R8', c, ex.loc(top))
    if not cur.orelse or not records_name(cur.orelse):
        R.violation('R8', c, ex.loc(cur), 'a line that is neither Rule, Link, Zone nor a TAB continuation inside a Zone falls off the if/elif chain and is ignored silently')


def records_name(body):
    """the branch stores something that carries the entry name (not just `counter += k` / logging)."""
    for s in body:
        for x in ast.walk(s):
            if isinstance(x, ast.Call):
                fn = ast.unparse(x.func)
                if fn in ('_add_item', '_add_reason') or fn.endswith('.append') or fn.endswith('.add'):
                    return True
            if isinstance(x, ast.Assign) and isinstance(x.targets[0], ast.Subscript):
                return True
            if isinstance(x, ast.Raise):
                return True
    return False


def _lin(n, env):
    """ast expression -> ({atom text: coefficient}, constant); names are resolved through env (straight-line assignments)."""
    if isinstance(n, ast.Constant) and isinstance(n.value, int) and not isinstance(n.value, bool):
        return {}, n.value
    if isinstance(n, ast.Name) and n.id in env:
        return env[n.id]
    if isinstance(n, ast.BinOp) and isinstance(n.op, (ast.Add, ast.Sub)):
        la, lc = _lin(n.left, env)
        ra, rc = _lin(n.right, env)
        sg = 1 if isinstance(n.op, ast.Add) else -1
        out = dict(la)
        for k, v in ra.items():
            out[k] = out.get(k, 0) + sg * v
        return {k: v for k, v in out.items() if v}, lc + sg * rc
    if isinstance(n, ast.Call):
        # resolve names inside the call so that min(era['untilYear'], self.until_year) is one atom whatever it is bound to
        return {ast.unparse(n): 1}, 0
    return {ast.unparse(n): 1}, 0


def _diff(a, b):
    """(a - b) as a constant, or None when the two linear forms differ in their symbolic part."""
    if a[0] != b[0]:
        return None
    return a[1] - b[1]


def marking_rules(R, tr):
    R.rule('R9', 'a rule an era can select is marked used: the marking interval is the closed year interval [era begin, era until] '
                 'under the comparator find_matching_rules applies', floor=3)
    g = tr.fn('find_matching_rules')
    params = [a.arg for a in g.node.args.args]
    if len(params) != 3:
        raise AnalysisError('%s: find_matching_rules no longer takes (rules, era_from, era_until)' % g.loc)
    lo_p, hi_p = params[1], params[2]
    upper_excl = lower_incl = None
    for n in ast.walk(g.node):
        if isinstance(n, ast.Compare) and len(n.ops) == 1:
            l, r, op = ast.unparse(n.left), ast.unparse(n.comparators[0]), n.ops[0]
            if isinstance(op, (ast.Gt, ast.GtE)):
                l, r = r, l
                op = ast.Lt() if isinstance(op, ast.Gt) else ast.LtE()
            if not isinstance(op, (ast.Lt, ast.LtE)):
                continue
            if 'fromYear' in l and r == hi_p:
                upper_excl = isinstance(op, ast.Lt)
            if l == lo_p and 'toYear' in r:
                lower_incl = isinstance(op, ast.LtE)
    c = 'tzdb.transformer.find_matching_rules:overlap'
    R.instance('R9', c, g.loc, 'fromYear %s era_until and era_from %s toYear' % ('<' if upper_excl else '<=', '<=' if lower_incl else '<'))
    if upper_excl is None or lower_incl is None:
        R.violation('R9', c, g.loc, 'the overlap test is not (rule.fromYear < or <= era_until) and (era_from <= or < rule.toYear)')
        return
    f = tr.fn('Transformer._mark_rules_used_by_zones')
    era_loops = [n for n in ast.walk(f.node) if isinstance(n, ast.For) and isinstance(n.target, ast.Name) and n.target.id == 'era']
    if len(era_loops) != 1:
        raise AnalysisError('%s: expected one `for era in eras` loop in _mark_rules_used_by_zones' % f.loc)
    loop = era_loops[0]
    env = {}
    calls = []
    carried = {}      # loop-carried assignments after the call (begin_year = era['untilYear'])
    for s in loop.body:
        if isinstance(s, ast.Assign) and len(s.targets) == 1 and isinstance(s.targets[0], ast.Name):
            hit = [x for x in ast.walk(s.value) if isinstance(x, ast.Call) and ast.unparse(x.func) == 'find_matching_rules']
            if hit:
                calls.append((hit[0], dict(env)))
                continue
            (carried if calls else env)[s.targets[0].id] = _lin(s.value, env if not calls else {**env, **carried})
    if len(calls) != 1 or len(calls[0][0].args) != 3:
        raise AnalysisError('%s: expected one find_matching_rules(rules, from, until) call in the era loop' % f.loc)
    call, cenv = calls[0]
    c = 'tzdb.transformer.Transformer._mark_rules_used_by_zones:until'
    R.instance('R9', c, tr.loc(call))
    hi = _lin(call.args[2], cenv)
    atoms = [k for k in hi[0] if "era['untilYear']" in k]
    if len(hi[0]) != 1 or not atoms or hi[0][atoms[0]] != 1:
        R.violation('R9', c, tr.loc(call), 'the upper bound %s is not the era\'s UNTIL year plus a constant' % ast.unparse(call.args[2]))
    else:
        need = 1 if upper_excl else 0
        if hi[1] < need:
            R.violation('R9', c, tr.loc(call), 'rules are matched against [.., %s) with the test fromYear %s era_until: a rule whose FROM year is the '
                        'era\'s UNTIL year is not marked, and is deleted as unused although the era (which ends inside that year) selects it'
                        % (ast.unparse(call.args[2]), '<' if upper_excl else '<='))
    c = 'tzdb.transformer.Transformer._mark_rules_used_by_zones:begin'
    R.instance('R9', c, tr.loc(call))
    if not (isinstance(call.args[1], ast.Name) and call.args[1].id in carried):
        R.violation('R9', c, tr.loc(call), 'the lower bound %s is not the loop-carried begin year' % ast.unparse(call.args[1]))
    else:
        nxt = carried[call.args[1].id]
        ok = len(nxt[0]) == 1 and "era['untilYear']" in next(iter(nxt[0])) and nxt[1] <= (0 if lower_incl else -1)
        if not ok:
            R.violation('R9', c, tr.loc(call), 'the next era is matched from %s + %d with the test era_from %s toYear: a rule still in effect in the '
                        'year the previous era ends is not marked' % (next(iter(nxt[0]), '?'), nxt[1], '<=' if lower_incl else '<'))
        first = [s for s in ast.walk(f.node) if isinstance(s, ast.Assign) and isinstance(s.targets[0], ast.Name)
                 and s.targets[0].id == call.args[1].id and s not in loop.body]
        for s in first:
            v = _lin(s.value, {})
            if 'self.start_year' in v[0] and v[1] > (-1 if lower_incl else -2):
                R.violation('R9', c, tr.loc(s), 'the first era is matched from start_year %+d: the year before start_year is needed for the most recent prior transition' % v[1])


def prior_rules_rule(R, tr):
    """find_latest_prior_rules(rules, year) keeps, for the era that starts in `year`, the rules in effect just before it:
    rules whose TO year lies strictly before `year`, and among them those with the latest (TO year, month).  A rule that
    still runs in `year` is found by find_matching_rules; counting it here as "prior" displaces the real prior rule,
    which is then deleted as unused."""
    f = tr.fn('find_latest_prior_rules')
    c = 'tzdb.transformer.find_latest_prior_rules'
    ypar = f.node.args.args[1].arg if len(f.node.args.args) >= 2 else None
    bound = {}
    for x in ast.walk(f.node):
        if isinstance(x, ast.Assign) and isinstance(x.targets[0], ast.Name) and isinstance(x.value, ast.Subscript):
            bound[x.targets[0].id] = ast.unparse(x.value.slice).strip("'\"")
    outer = inner = None
    for x in ast.walk(f.node):
        if isinstance(x, ast.If) and isinstance(x.test, ast.Compare) and len(x.test.ops) == 1:
            l, r = ast.unparse(x.test.left), ast.unparse(x.test.comparators[0])
            if bound.get(l) == 'toYear' and r == ypar:
                outer = ('l', x.test.ops[0])
            elif bound.get(r) == 'toYear' and l == ypar:
                outer = ('r', x.test.ops[0])
            elif 'candidate' in r and 'date' in l and isinstance(x.test.ops[0], (ast.Gt, ast.GtE, ast.Lt, ast.LtE)) and inner is None:
                inner = x.test.ops[0]
    R.instance('R9', c + ':before-year', f.loc)
    strict = outer is not None and ((outer[0] == 'l' and isinstance(outer[1], ast.Lt)) or (outer[0] == 'r' and isinstance(outer[1], ast.Gt)))
    if not strict:
        R.violation('R9', c + ':before-year', f.loc, 'prior rules are not selected by "rule TO year < %s" (found: %s): a rule that ends in the era\'s first year counts as prior, '
                    'replaces the rule really in effect before the era, and that rule is then removed as unused' % (ypar, type(outer[1]).__name__ if outer else 'no such test'))
    R.instance('R9', c + ':latest', f.loc)
    if not isinstance(inner, ast.Gt):
        R.violation('R9', c + ':latest', f.loc, 'the candidate is not replaced by a strictly later (TO year, month) date')


def run(cfg):
    R = Report('C03', cfg)
    tr = py.load(cfg, TR)
    marking_rules(R, tr)
    prior_rules_rule(R, tr)
    accounting_rules(R, tr)
    role_rules(cfg, R, tr)
    chain_rules(R, tr)
    lint_rules(cfg, R)
    extractor_rules(cfg, R)
    return R


SELFTEST = [
    dict(id='reason-not-recorded', file='tools/tzdb/transformer.py',
         find='            else:\n                _add_reason(removed_zones, name, "no ZoneEra found")', replace='            else:\n                pass', rule='R1', construct='_remove_zones_without_eras'),
    dict(id='empty-zone-dropped-silently', file='tools/tzdb/transformer.py', regex=True,
         find=r"(                    count \+= 1\n)            results\[name\] = keep_eras\n\n        logging.info\(\"Removed %s zone eras before", replace=r'\1            if keep_eras:\n                results[name] = keep_eras\n\n        logging.info("Removed %s zone eras before', rule='R1', construct='_remove_zone_eras_too_old'),
    dict(id='break-without-reason', file='tools/tzdb/transformer.py', regex=True,
         find=r"(                if rule_name not in \['-', ':'\] and rule_name not in rules_map:\n                    valid = False\n)                    _add_reason\(\n                        removed_zones, name,\n                        f\"policy '\{rule_name\}' not found\"\)\n", replace=r'\1', rule='R1', construct='_remove_zones_without_rules'),
    dict(id='zones-merged-into-policies', file='tools/tzdb/transformer.py', regex=True,
         find=r'("Removed %s zone infos with unsupported UNTIL time suffix",\n            len\(removed_zones\)\)\n        self._print_removed_map\(removed_zones\)\n        _merge_reasons\(self.all_removed_)zones', replace=r'\1policies', rule='R2'),
    dict(id='notable-merged-into-removed', file='tools/tzdb/transformer.py', unique=False, nth=0,
         find='        _merge_reasons(self.all_notable_zones, notable_zones)', replace='        _merge_reasons(self.all_removed_zones, notable_zones)', rule='R2'),
    dict(id='merge-deleted', file='tools/tzdb/transformer.py', regex=True,
         find=r"(            \"Removed %s zone infos without ZoneEras\" % len\(removed_zones\)\)\n        self._print_removed_map\(removed_zones\)\n)        _merge_reasons\(self.all_removed_zones, removed_zones\)\n", replace=r'\1', rule='R3', construct='_remove_zones_without_eras'),
    dict(id='unpack-order-swapped', file='tools/tzcompiler.py', find='        zones_map, rules_map, links_map, removed_zones, removed_policies,\n        removed_links, notable_zones,',
         replace='        zones_map, rules_map, links_map, removed_policies, removed_zones,\n        removed_links, notable_zones,', rule='R4'),
    dict(id='collector-key-crossed', file='tools/tzdb/tzdbcollector.py', find="            'removed_links': removed_links,", replace="            'removed_links': removed_zones,", rule='R4'),
    dict(id='generator-keyword-crossed', file='tools/zonedb/argenerator.py', find="            notable_links=tzdb['notable_links'],", replace="            notable_links=tzdb['removed_links'],", rule='R4'),
    dict(id='placeholder-dropped', file='tools/zonedb/argenerator.py', find='{removedLinkItems}', replace='', rule='R4', construct='removed_links'),
    dict(id='filter-call-deleted', file='tools/tzdb/transformer.py', find='        rules_map = self._remove_rules_out_of_bounds(rules_map)\n', replace='', rule='R5'),
    dict(id='filter-result-discarded', file='tools/tzdb/transformer.py', find='        zones_map = self._remove_zones_with_non_monotonic_until(zones_map)', replace='        self._remove_zones_with_non_monotonic_until(zones_map)', rule='R5'),
    dict(id='filter-result-to-wrong-map', file='tools/tzdb/transformer.py', find='        zones_map = self._remove_zones_without_rules(zones_map, rules_map)', replace='        rules_map = self._remove_zones_without_rules(zones_map, rules_map)', rule='R5'),
    dict(id='to-year-not-checked', file='tools/tzdb/transformer.py', find='if not is_year_tiny(from_year) or not is_year_tiny(to_year):', replace='if not is_year_tiny(from_year) or not is_year_tiny(from_year):', rule='R6'),
    dict(id='fstring-percent', file='tools/tzdb/transformer.py', find="""                        f"invalid AT time '{at_time}'")""", replace="""                        f"invalid AT time '{at_time}'" % at_time)""", rule='R7'),
    dict(id='format-arity', file='tools/tzdb/transformer.py', find="""                    "Found %d transitions in year/month '%04d-%02d'" % removal)""", replace="""                    "Found %d transitions in year/month '%04d-%02d'" % (removal[0], removal[1]))""", rule='R7'),
    dict(id='prior-rules-include-the-era-year', file='tools/tzdb/transformer.py', unique=False, nth=0, find='        if rule_year < year:\n            rule_date = (rule_year, rule_month)\n            if rule_date > candidate_date:',
         replace='        if rule_year <= year:\n            rule_date = (rule_year, rule_month)\n            if rule_date > candidate_date:', rule='R9', construct='before-year'),
    dict(id='prior-rules-keep-earliest', file='tools/tzdb/transformer.py', find='            if rule_date > candidate_date:', replace='            if rule_date >= candidate_date:', rule='R9', construct='latest'),
    dict(id='marking-stops-before-until-year', file='tools/tzdb/transformer.py',
         find='                matching_rules = find_matching_rules(rules, begin_year,\n                                                     until_year + 1)',
         replace='                matching_rules = find_matching_rules(rules, begin_year,\n                                                     until_year)', rule='R9', construct=':until'),
    dict(id='marking-next-era-starts-late', file='tools/tzdb/transformer.py',
         find="                begin_year = era['untilYear']\n\n        return (zones_map, rules_map)", replace="                begin_year = era['untilYear'] + 1\n\n        return (zones_map, rules_map)", rule='R9', construct=':begin'),
    dict(id='overlap-test-strict-lower', file='tools/tzdb/transformer.py',
         find="        if rule['fromYear'] < era_until and era_from <= rule['toYear']:", replace="        if rule['fromYear'] < era_until and era_from < rule['toYear']:", rule='R9'),
    dict(id='marking-closed-interval-spelling-silent', edits=[
        dict(file='tools/tzdb/transformer.py', find='                matching_rules = find_matching_rules(rules, begin_year,\n                                                     until_year + 1)',
             replace='                matching_rules = find_matching_rules(rules, begin_year,\n                                                     until_year)'),
        dict(file='tools/tzdb/transformer.py', find="        if rule['fromYear'] < era_until and era_from <= rule['toYear']:", replace="        if rule['fromYear'] <= era_until and era_from <= rule['toYear']:")],
         expect='silent'),
    dict(id='filters-reordered-silent', file='tools/tzdb/transformer.py',
         find="        zones_map = self._remove_zone_eras_too_old(zones_map)\n        zones_map = self._remove_zone_eras_too_new(zones_map)",
         replace="        zones_map = self._remove_zone_eras_too_new(zones_map)\n        zones_map = self._remove_zone_eras_too_old(zones_map)", expect='silent'),
    dict(id='early-continue-idiom-silent', file='tools/tzdb/transformer.py',
         find='            if eras:\n                results[name] = eras\n            else:\n                _add_reason(removed_zones, name, "no ZoneEra found")',
         replace='            if not eras:\n                _add_reason(removed_zones, name, "no ZoneEra found")\n                continue\n            results[name] = eras', expect='silent'),
]
