"""C03 - the TZ compiler reports everything it does not emit (structural clauses): accounting of every dropped
zone/policy/link, kind consistency of the reason collections, role flow from Transformer.get_data() to the generated
comments, duplicate-operand and formatting-arity lints, extractor accounting; the accounting itself is decided on
interpreted compilations (rules_C03b.py)."""
import ast
import re

from .common import AnalysisError, Report
from . import py
from .ir import E, S, walk_stmts, walk_expr, all_exprs, stmt_exprs, show
from .paths import Engine, Rule, States, path_of

META = {
    'explanation': 'E-PATH over one iteration of every filter loop of tzdb.transformer.Transformer (state: valid flag, reason recorded, '
                   'entry emitted), kind inference for the local reason collections, name/role-preserving data flow from '
                   'Transformer.get_data() through tzcompiler.main, TzDbCollector and the generator constructors; the last step - '
                   'each removed/notable collection comes out, with its reasons, under the heading of its own role - is read off the '
                   'zone_infos.h / zone_policies.h that ArduinoGenerator.generate_files() writes for a tagged miniature database '
                   '(E-SEQ over the Python ast, acv/pyeval.py + acv/genrender.py); the whole compiler interpreted on a sweep source and on a '
                   'feature source (one zone, policy or link per removal reason and note) in both scopes: emitted xor removed with a '
                   'reason (R10), altered values carry a note (R11), the Python tables equal the source lines (R12), every filter and '
                   '52 of the 55 reason sites are reached by the interpretation (R5); ast lints '
                   '(identical operands, % formatting arity); the silent "unused rule" removal is interpreted: '
                   '_mark_rules_used_by_zones + _remove_rules_unused on seven zone shapes x all policies of one or two rules whose '
                   'FROM/TO years sit on and around the era boundaries - every rule an era can select survives.',
    'decided': 'every zone/policy/link a Transformer filter does not pass on is recorded with a reason in a collection of its own '
               'kind that is merged into the matching all_removed_* / all_notable_* attribute; those attributes reach the '
               'generated headers under the matching role; on the sweep and feature sources every zone, policy and link is emitted or '
               'removed with a reason (never both, never neither) and every filter of the transformer is reached; '
               'no comparison has two identical operands; % formatting operand counts match; the extractor records what it skips; '
               'no rule an era can select (closed year interval of the era, and the latest rule before it) is removed as unused',
    'not_decided': 'that what is emitted has zic\'s semantics at every instant (end-to-end semantic preservation)',
    'assumptions': ['CPython ast', '_add_reason / _merge_reasons are the only writers of the reason collections'],
}

TR = 'tools/tzdb/transformer.py'
EX = 'tools/tzdb/extractor.py'
KINDS = {'zones': 'zones', 'zone': 'zones', 'rules': 'policies', 'policies': 'policies', 'policy': 'policies', 'links': 'links', 'link': 'links'}


def kind_of_name(name):
    n = name.lower()
    for k in ('zones', 'rules', 'policies', 'links'):
        if k in n:
            return KINDS[k]
    for k in ('zone', 'policy', 'link'):
        if k in n:
            return KINDS[k]
    return None


# ---------------------------------------------------------------------------------------------------------
# R1 accounting per loop iteration
# ---------------------------------------------------------------------------------------------------------

class Acct(Rule):
    """state: (valid in {T,F,?}, reasoned, emitted)"""

    def __init__(self, key_var, results_vars, flag_vars):
        self.key, self.results, self.flags = key_var, results_vars, flag_vars
        self.exits = []

    def initial(self):
        return [('?', False, False)]

    def assign(self, s, st, tr):
        if s.k != 'assign':
            return st
        t = s.a[0]
        if t.k == 'var' and t.a[0] in self.flags:
            v = s.a[1]
            if v.k == 'const':
                return ('T' if v.a[0] else 'F', st[1], st[2])
            return ('?', st[1], st[2])
        if t.k == 'index' and t.a[0].k == 'var' and t.a[0].a[0] in self.results and path_of(t.a[1]) == self.key:
            return (st[0], st[1], True)
        return st

    def event(self, e, st, tr):
        if e.k == 'call' and e.a[0] == '_add_reason' and len(e.a[2]) >= 2 and path_of(e.a[2][1]) == self.key:
            return (st[0], True, st[2])
        return st

    def refine(self, cond, st, truth):
        c = cond
        if c.k == 'var' and c.a[0] in self.flags:
            if st[0] == '?':
                return ('T' if truth else 'F', st[1], st[2])
            if (st[0] == 'T') != truth:
                return None
        return st

    def at_exit(self, kind, stmt, st, tr):
        self.exits.append((kind, st, tr, stmt.loc if stmt is not None else None))


def filter_methods(tr):
    """Transformer methods that iterate `X_map.items()` and build a `results` map."""
    out = []
    for q, f in tr.funcs.items():
        if f.cls != 'Transformer':
            continue
        loops = [s for s in f.body if s.k == 'loop' and s.a[0] == 'foreach']
        res = [s.a[0].a[0] for s in f.body if s.k == 'assign' and s.a[0].k == 'var' and s.a[1].k == 'init' and s.a[1].a[0] == 'dict'
               and s.a[0].a[0].startswith('results')]
        if loops and res:
            out.append((f, loops, res))
    return out


def accounting_rules(R, tr):
    R.rule('R1', 'every iteration of a Transformer filter loop either emits the entry or records a reason for it', floor=20)
    R.rule('R2', 'a local reason collection is merged into the all_* attribute of the same kind and category', floor=20)
    R.rule('R3', 'every local reason collection is merged into a self.all_* attribute before the method returns', floor=20)
    fm = filter_methods(tr)
    if len(fm) < 18:
        raise AnalysisError('anchor moved: only %d filter methods with a results map found in Transformer (24 confirmed by hand)' % len(fm))
    R.analysed['filter_methods'] = [f.name for f, _l, _r in fm]
    for f, loops, res in fm:
        for lp in loops:
            init = lp.a[1][0]
            tgt = init.a[0]
            it = init.a[1].a[0]
            if not (it.k == 'call' and it.a[0] == 'items' and it.a[1] is not None):
                continue
            key = None
            if tgt.k == 'init' and tgt.a[1] and tgt.a[1][0].k == 'var':
                key = tgt.a[1][0].a[0]
            if key is None:
                continue
            src = path_of(it.a[1])
            writes_results = any(s.k == 'assign' and s.a[0].k == 'index' and s.a[0].a[0].k == 'var' and s.a[0].a[0].a[0] in res for s in walk_stmts(lp.a[4]))
            if not writes_results:
                continue
            flags = {s.a[0].a[0] for s in walk_stmts(lp.a[4]) if s.k == 'assign' and s.a[0].k == 'var' and s.a[1].k == 'const' and s.a[1].ty == 'bool'}
            rule = Acct(key, set(res), flags)
            eng = Engine(rule)
            init_states = States()
            for st in rule.initial():
                init_states.add(st, ())
            fall, brk, cont = eng.block(lp.a[4], init_states)
            ends = list(fall.items()) + list(cont.items()) + list(brk.items())
            c = 'tzdb.transformer.%s' % f.name
            R.instance('R1', c, lp.loc, 'loop over %s, key %s' % (src, key))
            bad = [(st, trc) for st, trc in ends if not (st[1] or st[2])]
            if bad:
                exc = R1_EXCEPTIONS.get(f.name)
                if exc:
                    R.exception('R1', c, exc)
                else:
                    st, trc = bad[0]
                    R.violation('R1', c, lp.loc, 'an iteration can end without storing results[%s] and without _add_reason(..., %s, ...): the %s '
                                'disappears from the output with no reason recorded' % (key, key, (kind_of_name(src or '') or 'entry').rstrip('s')),
                                detail=list(trc))
        reason_rules(R, tr, f)


R1_EXCEPTIONS = {}


def reason_rules(R, tr, f):
    """R2 / R3 for one method."""
    locs = {}
    for s in walk_stmts(f.body):
        if s.k == 'assign' and s.a[0].k == 'var' and s.a[1].k == 'init' and s.a[1].a[0] == 'dict' and \
                (s.a[0].a[0].startswith('removed_') or s.a[0].a[0].startswith('notable_')):
            locs[s.a[0].a[0]] = s.loc
    if not locs:
        return
    # kind from the keys added
    key_src = {}
    for lp in [s for s in walk_stmts(f.body) if s.k == 'loop' and s.a[0] == 'foreach']:
        init = lp.a[1][0]
        tgt, it = init.a[0], init.a[1].a[0]
        if it.k == 'call' and it.a[0] == 'items' and it.a[1] is not None and tgt.k == 'init' and tgt.a[1] and tgt.a[1][0].k == 'var':
            key_src[tgt.a[1][0].a[0]] = path_of(it.a[1])
    added_kind = {}
    for e in all_exprs(f.body):
        if e.k == 'call' and e.a[0] == '_add_reason' and len(e.a[2]) >= 2 and e.a[2][0].k == 'var':
            coll = e.a[2][0].a[0]
            kv = path_of(e.a[2][1])
            src = key_src.get(kv)
            k = kind_of_name(src) if src else kind_of_name(kv or '')
            if k:
                added_kind.setdefault(coll, set()).add(k)
    merged = {}
    for e in all_exprs(f.body):
        if e.k == 'call' and e.a[0] == '_merge_reasons' and len(e.a[2]) == 2 and e.a[2][1].k == 'var':
            tgt = path_of(e.a[2][0])
            merged.setdefault(e.a[2][1].a[0], []).append((tgt, e.loc))
    for coll, loc in locs.items():
        c = 'tzdb.transformer.%s:%s' % (f.name, coll)
        R.instance('R3', c, loc)
        if coll not in merged:
            R.violation('R3', c, loc, 'reasons collected in %s are never merged into a self.all_* attribute: they do not reach the generated files' % coll)
            continue
        for tgt, mloc in merged[coll]:
            R.instance('R2', c, mloc, '-> %s' % tgt)
            m = re.match(r'^self\.all_(removed|notable)_(\w+)$', tgt or '')
            if not m:
                R.violation('R2', c, mloc, 'reasons are merged into %s, which is not a self.all_removed_* / self.all_notable_* attribute' % tgt)
                continue
            cat, kind = m.group(1), KINDS.get(m.group(2))
            want_cat = coll.split('_')[0]
            kinds = added_kind.get(coll) or {kind_of_name(coll)}
            if cat != want_cat:
                R.violation('R2', c, mloc, '%s reasons are merged into the %s collection %s' % (want_cat, cat, tgt))
            elif kind not in kinds:
                R.violation('R2', c, mloc, 'the keys added to %s are %s names but it is merged into %s: the removals are reported under the wrong heading' %
                            (coll, '/'.join(sorted(k for k in kinds if k)), tgt))


# ---------------------------------------------------------------------------------------------------------
# R4 role flow
# ---------------------------------------------------------------------------------------------------------

def role_of_expr(n):
    """role name carried by an expression of get_data(): self.X -> X ; {.. for .. in self.all_R_K.items()} -> R_K"""
    src = ast.unparse(n)
    m = re.search(r'self\.all_(removed|notable)_(\w+)', src)
    if m:
        return '%s_%s' % (m.group(1), m.group(2))
    m = re.search(r'self\.(\w+)', src)
    return m.group(1) if m else None


def role_rules(cfg, R, tr):
    R.rule('R4', 'roles (map / removed / notable x zones / policies / links / strings) are preserved by every binding from '
                 'Transformer.get_data() to the template placeholders', floor=60)
    tc = py.load(cfg, 'tools/tzcompiler.py')
    col = py.load(cfg, 'tools/tzdb/tzdbcollector.py')
    ar = py.load(cfg, 'tools/zonedb/argenerator.py')
    pg = py.load(cfg, 'tools/zonedb/pygenerator.py')
    zl = py.load(cfg, 'tools/zonedb/zonelistgenerator.py')
    ex = py.load(cfg, EX)
    R.analysed['python_modules'] = [TR, EX, tc.rel, col.rel, ar.rel, pg.rel, zl.rel]
    # (i) get_data tuple -> unpacking in main
    gd = tr.fn('Transformer.get_data')
    rets = [n for n in ast.walk(gd.node) if isinstance(n, ast.Return) and isinstance(n.value, ast.Tuple)]
    if not rets:
        raise AnalysisError('%s: Transformer.get_data() does not return a tuple' % gd.loc)
    roles = [role_of_expr(x) for x in rets[0].value.elts]
    main = tc.fn('main')
    unpack = None
    for n in ast.walk(main.node):
        if isinstance(n, ast.Assign) and isinstance(n.value, ast.Call) and ast.unparse(n.value.func).endswith('transformer.get_data') \
                and isinstance(n.targets[0], ast.Tuple):
            unpack = n
    if unpack is None:
        raise AnalysisError('%s: main() does not unpack transformer.get_data()' % main.loc)
    names = [t.id if isinstance(t, ast.Name) else None for t in unpack.targets[0].elts]
    for i, (r, nme) in enumerate(zip(roles, names)):
        c = 'tzcompiler.main:get_data[%d]' % i
        R.instance('R4', c, tc.loc(unpack), '%s -> %s' % (r, nme))
        if r != nme:
            R.violation('R4', c, tc.loc(unpack), 'position %d of Transformer.get_data() carries %s but is bound to %s' % (i, r, nme))
    if len(roles) != len(names):
        R.instance('R4', 'tzcompiler.main:get_data', tc.loc(unpack))
        R.violation('R4', 'tzcompiler.main:get_data', tc.loc(unpack), 'get_data() returns %d values, main() unpacks %d' % (len(roles), len(names)))
    # extractor -> transformer positional order
    egd = None
    tcall = None
    for n in ast.walk(main.node):
        if isinstance(n, ast.Assign) and isinstance(n.value, ast.Call) and ast.unparse(n.value.func).endswith('extractor.get_data'):
            egd = n
        if isinstance(n, ast.Call) and isinstance(n.func, ast.Name) and n.func.id == 'Transformer':
            tcall = n
    if egd is None or tcall is None:
        raise AnalysisError('%s: extractor.get_data() / Transformer(...) not found in main()' % main.loc)
    ex_ret = [n for n in ast.walk(ex.fn('Extractor.get_data').node) if isinstance(n, ast.Return)][0]
    ex_roles = [role_of_expr(x) for x in ex_ret.value.elts]
    ex_names = [t.id for t in egd.targets[0].elts]
    R.instance('R4', 'tzcompiler.main:extractor.get_data', tc.loc(egd))
    if ex_roles != ex_names:
        R.violation('R4', 'tzcompiler.main:extractor.get_data', tc.loc(egd), 'Extractor.get_data() returns %s, bound to %s' % (ex_roles, ex_names))
    tparams = tr.fn('Transformer.__init__').params[1:]
    for i, a in enumerate(tcall.args):
        c = 'tzcompiler.main:Transformer(arg %d)' % i
        R.instance('R4', c, tc.loc(tcall))
        src = ast.unparse(a)
        if isinstance(a, ast.Name) and a.id != tparams[i] and kind_of_name(a.id) and kind_of_name(tparams[i]) and kind_of_name(a.id) != kind_of_name(tparams[i]):
            R.violation('R4', c, tc.loc(tcall), 'argument %s is passed for parameter %s' % (src, tparams[i]))
    # (ii) keyword bindings name == source in constructor calls
    for mod in (tc, ar, pg, zl):
        for q, f in mod.funcs.items():
            for n in ast.walk(f.node):
                if isinstance(n, ast.Call) and isinstance(n.func, ast.Name) and n.func.id[:1].isupper():
                    for kw in n.keywords:
                        if kw.arg is None:
                            continue
                        v = kw.value
                        src = None
                        if isinstance(v, ast.Name):
                            src = v.id
                        elif isinstance(v, ast.Subscript) and isinstance(v.value, ast.Name) and v.value.id == 'tzdb' and isinstance(v.slice, ast.Constant):
                            src = v.slice.value
                        elif isinstance(v, ast.Attribute) and isinstance(v.value, ast.Name) and v.value.id == 'self':
                            src = v.attr
                        if src is None:
                            continue
                        if not (kind_of_name(kw.arg) or kw.arg.startswith(('removed', 'notable'))):
                            continue
                        c = '%s.%s:%s(%s=)' % (mod.rel.split('/')[-1][:-3], q, n.func.id, kw.arg)
                        R.instance('R4', c, mod.loc(n), '%s=%s' % (kw.arg, src))
                        if src != kw.arg:
                            R.violation('R4', c, mod.loc(n), 'keyword %s receives %s' % (kw.arg, src))
    # (iii) TzDbCollector: 'key': param
    ci = col.fn('TzDbCollector.__init__')
    for n in ast.walk(ci.node):
        if isinstance(n, ast.Dict):
            for k, v in zip(n.keys, n.values):
                if isinstance(k, ast.Constant) and isinstance(v, ast.Name):
                    c = 'tzdbcollector.TzDbCollector.__init__:%s' % k.value
                    R.instance('R4', c, col.loc(n))
                    if k.value != v.id:
                        R.violation('R4', c, col.loc(k), "tzdb['%s'] is filled from %s" % (k.value, v.id))
    # (iv) constructor copies self.attr = param
    for mod in (ar, pg, zl):
        for q, f in mod.funcs.items():
            if not q.endswith('.__init__'):
                continue
            for n in ast.walk(f.node):
                if isinstance(n, ast.Assign) and isinstance(n.targets[0], ast.Attribute) and ast.unparse(n.targets[0].value) == 'self':
                    attr = n.targets[0].attr
                    v = n.value
                    src = v.id if isinstance(v, ast.Name) else (v.slice.value if isinstance(v, ast.Subscript) and isinstance(v.slice, ast.Constant) and ast.unparse(v.value) == 'tzdb' else None)
                    if src is None or not (kind_of_name(attr) or attr.startswith(('removed', 'notable'))):
                        continue
                    c = '%s.%s:self.%s' % (mod.rel.split('/')[-1][:-3], q, attr)
                    R.instance('R4', c, mod.loc(n))
                    if src != attr:
                        R.violation('R4', c, mod.loc(n), 'self.%s is initialised from %s' % (attr, src))
    # (v) each removed_/notable_ role is rendered, with its reasons, in the section of the header that is headed for it
    rendered_roles(cfg, R, ar)


ROLE_WORDS = {'removed': ('unsupported', 'removed'), 'notable': ('notable',), 'zones': ('zone',), 'links': ('link',), 'policies': ('polic',)}


def rendered_roles(cfg, R, ar):
    """The two headers are rendered (E-SEQ, acv/genrender.py) from a database whose removed / notable collections hold
    tagged names and reasons.  Every tagged name must come out, on one line with all its reasons, inside the section whose
    heading names its role (Unsupported/Removed or Notable; zones, links or policies), the count in that heading must be
    the number of names, and no tag may come out under a heading of another role."""
    from .genrender import generate_files, tagged_db, sections
    from .pyeval import Raised
    want = {'ZoneInfosGenerator.generate_infos_h': ('zone_infos.h', ['removed_zones', 'notable_zones', 'removed_links', 'notable_links']),
            'ZonePoliciesGenerator.generate_policies_h': ('zone_policies.h', ['removed_policies', 'notable_policies'])}
    db = tagged_db('extended')
    gf = ar.fn('ArduinoGenerator.generate_files')
    try:
        files = generate_files(cfg, 'arduino', db)
    except Raised as r_:
        raise AnalysisError('%s: generating the files of the tagged database raises %s' % (gf.loc, r_.what))
    for fn_name, (fname, attrs) in want.items():
        f = ar.funcs.get(fn_name) or gf
        if fname not in files:
            raise AnalysisError('%s: ArduinoGenerator.generate_files() writes %s, not %s' % (gf.loc, sorted(files), fname))
        secs = sections(files[fname])
        for attr in attrs:
            c = 'argenerator.%s:%s' % (fn_name, attr)
            R.instance('R4', c, f.loc)
            cat, kind = attr.split('_')
            heads = [h for h in secs if any(w in h.lower() for w in ROLE_WORDS[cat]) and any(w in h.lower() for w in ROLE_WORDS[kind])]
            if len(heads) != 1:
                R.violation('R4', c, f.loc, 'the rendered header has %s section headed for the %s %s (headings: %s)' % ('no' if not heads else 'more than one', cat, kind, sorted(secs)))
                continue
            count, lines = secs[heads[0]]
            names = db[attr]
            msg = None
            def named(nm, ln):
                return re.search(re.escape(nm) + r'(?![\w/-])', ln) is not None
            for nm, reasons in names.items():
                hit = [ln for ln in lines if named(nm, ln)]
                if not hit:
                    elsewhere = [h for h, (_n, ls) in secs.items() if h != heads[0] and any(w in h.lower() for w in ('unsupported', 'removed', 'notable'))
                                 and any(named(nm, ln) for ln in ls)]
                    msg = 'self.%s is never rendered: %s (tagged %s) does not appear under "%s"%s' % (
                        attr, nm, reasons, heads[0], (', it appears under "%s"' % elsewhere[0]) if elsewhere else '')
                    break
                if not all(r_ in hit[0] for r_ in reasons):
                    msg = 'the entry of %s under "%s" does not carry its reasons %s: %r' % (nm, heads[0], reasons, hit[0])
                    break
            if msg is None and count != len(names):
                msg = 'the heading "%s" counts %d, self.%s holds %d' % (heads[0], count, attr, len(names))
            if msg is None:
                for other in ('removed_zones', 'notable_zones', 'removed_links', 'notable_links', 'removed_policies', 'notable_policies'):
                    if other == attr:
                        continue
                    for nm, reasons in db[other].items():
                        if any(r_ in ln for ln in lines for r_ in reasons):
                            msg = 'the section "%s" carries %s of self.%s' % (heads[0], reasons, other)
            if msg:
                R.violation('R4', c, f.loc, msg)


# ---------------------------------------------------------------------------------------------------------
# R5 filter chain
# ---------------------------------------------------------------------------------------------------------

R5_EXCEPTIONS = {'_remove_zones_without_slash': 'transform() does not apply it: upstream keeps the call as a comment ("# zones_map = self._remove_zones_without_slash(zones_map)")'}


# ---------------------------------------------------------------------------------------------------------
# R6 / R7 lints
# ---------------------------------------------------------------------------------------------------------

LINT_FILES = ['tools/tzdb/transformer.py', 'tools/tzdb/extractor.py', 'tools/tzdb/tzdbcollector.py', 'tools/zonedb/argenerator.py',
              'tools/zonedb/pygenerator.py', 'tools/zonedb/ingenerator.py', 'tools/zonedb/zonelistgenerator.py',
              'tools/zonedb/bufestimator.py', 'tools/tzcompiler.py']


def pure(n):
    return not any(isinstance(x, (ast.Call, ast.Await, ast.Yield, ast.NamedExpr)) and not
                   (isinstance(x, ast.Call) and isinstance(x.func, ast.Name) and x.func.id in ('len', 'is_year_tiny', 'int', 'str', 'abs'))
                   for x in ast.walk(n))


def lint_rules(cfg, R):
    R.rule('R6', 'no boolean operation or comparison has two structurally identical operands', floor=100)
    R.rule('R7', '% formatting: the number of conversion specifiers equals the number of operands', floor=25)
    for rel in LINT_FILES:
        m = py.load(cfg, rel)
        modn = rel.split('/')[-1][:-3]
        funcs = {}
        for q, f in m.funcs.items():
            for n in ast.walk(f.node):
                funcs.setdefault(id(n), q)
        for n in ast.walk(m.tree):
            where = funcs.get(id(n), '<module>')
            if isinstance(n, ast.BoolOp):
                c = '%s.%s:boolop@%s' % (modn, where, _norm(ast.unparse(n))[:60])
                R.instance('R6', c, m.loc(n))
                seen = {}
                for v in n.values:
                    k = ast.dump(v)
                    if k in seen and pure(v):
                        R.violation('R6', '%s.%s:duplicate(%s)' % (modn, where, _norm(ast.unparse(v))[:50]), m.loc(n),
                                    'operand "%s" appears twice in "%s": the second test is redundant and another operand is probably missing' % (ast.unparse(v), ast.unparse(n)[:120]))
                    seen[k] = True
            elif isinstance(n, ast.Compare) and len(n.ops) == 1:
                R.instance('R6', '%s.%s:compare@%s' % (modn, where, _norm(ast.unparse(n))[:60]), m.loc(n))
                if ast.dump(n.left) == ast.dump(n.comparators[0]) and pure(n.left):
                    R.violation('R6', '%s.%s:selfcompare(%s)' % (modn, where, _norm(ast.unparse(n))[:50]), m.loc(n), 'an expression is compared with itself: %s' % ast.unparse(n))
            elif isinstance(n, ast.BinOp) and isinstance(n.op, ast.Mod):
                left = n.left
                if isinstance(left, ast.JoinedStr):
                    c = '%s.%s:fstring%%' % (modn, where)
                    R.instance('R7', c, m.loc(n))
                    lits = ''.join(v.value for v in left.values if isinstance(v, ast.Constant) and isinstance(v.value, str))
                    nspec = len(re.findall(r'%(?!%)[-#0 +]*\d*(?:\.\d+)?[sdrfxXeEgGci]', lits))
                    nops = len(n.right.elts) if isinstance(n.right, ast.Tuple) else 1
                    if nspec != nops:
                        R.violation('R7', c, m.loc(n), 'an f-string with %d conversion specifier(s) is %%-formatted with %d operand(s) (%s): raises TypeError '
                                    'instead of recording the message' % (nspec, nops, ast.unparse(n.right)))
                    continue
                s = None
                if isinstance(left, ast.Constant) and isinstance(left.value, str):
                    s = left.value
                elif isinstance(left, ast.BinOp) and isinstance(left.op, ast.Add):
                    parts = []
                    ok = True
                    for x in _flatten_add(left):
                        if isinstance(x, ast.Constant) and isinstance(x.value, str):
                            parts.append(x.value)
                        else:
                            ok = False
                    if ok:
                        s = ''.join(parts)
                if s is None:
                    continue
                c = '%s.%s:%%@%s' % (modn, where, _norm(s)[:40])
                R.instance('R7', c, m.loc(n))
                nspec = len(re.findall(r'%(?!%)[-#0 +]*\d*(?:\.\d+)?[sdrfxXeEgGci]', s))
                if isinstance(n.right, ast.Tuple):
                    nops = len(n.right.elts)
                elif isinstance(n.right, ast.Dict):
                    continue
                else:
                    nops = 1
                    scalar = isinstance(n.right, (ast.Constant, ast.JoinedStr)) or \
                        (isinstance(n.right, ast.Call) and isinstance(n.right.func, ast.Name) and n.right.func.id in ('len', 'str', 'int', 'repr', 'abs', 'float'))
                    if nspec > 1 and not scalar:
                        continue     # a name, attribute, subscript or call that may hold a tuple
                if nspec != nops:
                    R.violation('R7', c, m.loc(n), 'format string has %d conversion specifier(s) but %d operand(s)' % (nspec, nops))


def _flatten_add(n):
    if isinstance(n, ast.BinOp) and isinstance(n.op, ast.Add):
        return _flatten_add(n.left) + _flatten_add(n.right)
    return [n]


def _norm(s):
    return re.sub(r'\s+', '', s)


# ---------------------------------------------------------------------------------------------------------
# R8 extractor accounting
# ---------------------------------------------------------------------------------------------------------

def extractor_rules(cfg, R):
    R.rule('R8', 'every branch of the extractor that does not store the parsed entry records its name in a structure that reaches the '
                 'generated files (a bare counter is not a report)', floor=4)
    ex = py.load(cfg, EX)
    # _process_rules / _process_zones: per inner iteration: _add_item(self.X_map, name, entry) or a name-carrying record
    for fn, store in (('Extractor._process_rules', 'rules_map'), ('Extractor._process_zones', 'zones_map')):
        f = ex.fn(fn)
        for n in ast.walk(f.node):
            if isinstance(n, ast.Try):
                for h in n.handlers:
                    c = 'tzdb.extractor.%s:except' % fn
                    R.instance('R8', c, ex.loc(h))
                    if not records_name(h.body):
                        R.violation('R8', c, ex.loc(h), 'a line that fails to parse is logged and counted, but the %s it belongs to is emitted without it and '
                                    'nothing names it in the output' % ('policy' if 'rules' in fn else 'zone'))
    f = ex.fn('Extractor._process_links')
    for n in ast.walk(f.node):
        if isinstance(n, ast.If) and 'len(lines)' in ast.unparse(n.test):
            c = 'tzdb.extractor.Extractor._process_links:duplicate'
            R.instance('R8', c, ex.loc(n))
            body = n.body if isinstance(n.test, ast.Compare) and isinstance(n.test.ops[0], ast.Gt) else n.orelse
            if not records_name(body):
                R.violation('R8', c, ex.loc(n), 'a link name that occurs more than once is dropped with only a counter increment')
    f = ex.fn('Extractor._parse_zone_file')
    # the classification chain: the if/elif chain whose arms store lines with _add_item(self.<kind>_lines, ...)
    def chain_of(n):
        arms = [n]
        while arms[-1].orelse and len(arms[-1].orelse) == 1 and isinstance(arms[-1].orelse[0], ast.If):
            arms.append(arms[-1].orelse[0])
        return arms

    def stores_line(body):
        return any(isinstance(x, ast.Call) and ast.unparse(x.func) == '_add_item' and x.args and ast.unparse(x.args[0]).endswith('_lines')
                   for s in body for x in ast.walk(s))
    inner = set()
    best = None
    for n in ast.walk(f.node):
        if isinstance(n, ast.If) and id(n) not in inner:
            arms = chain_of(n)
            inner.update(id(a) for a in arms[1:])
            k = sum(1 for a in arms if stores_line(a.body))
            if k >= 2 and (best is None or k > best[0]):
                best = (k, arms)
    if best is None:
        raise AnalysisError('%s: line classification chain not found' % f.loc)
    top, cur = best[1][0], best[1][-1]
    c = 'tzdb.extractor.Extractor._parse_zone_file:unrecognised-line'
    R.instance('R8', c, ex.loc(top))
    if not cur.orelse or not records_name(cur.orelse):
        R.violation('R8', c, ex.loc(cur), 'a line that is neither Rule, Link, Zone nor a TAB continuation inside a Zone falls off the if/elif chain and is ignored silently')


def records_name(body):
    """the branch stores something that carries the entry name (not just `counter += k` / logging)."""
    for s in body:
        for x in ast.walk(s):
            if isinstance(x, ast.Call):
                fn = ast.unparse(x.func)
                if fn in ('_add_item', '_add_reason') or fn.endswith('.append') or fn.endswith('.add'):
                    return True
            if isinstance(x, ast.Assign) and isinstance(x.targets[0], ast.Subscript):
                return True
            if isinstance(x, ast.Raise):
                return True
    return False


def _lin(n, env):
    """ast expression -> ({atom text: coefficient}, constant); names are resolved through env (straight-line assignments)."""
    if isinstance(n, ast.Constant) and isinstance(n.value, int) and not isinstance(n.value, bool):
        return {}, n.value
    if isinstance(n, ast.Name) and n.id in env:
        return env[n.id]
    if isinstance(n, ast.BinOp) and isinstance(n.op, (ast.Add, ast.Sub)):
        la, lc = _lin(n.left, env)
        ra, rc = _lin(n.right, env)
        sg = 1 if isinstance(n.op, ast.Add) else -1
        out = dict(la)
        for k, v in ra.items():
            out[k] = out.get(k, 0) + sg * v
        return {k: v for k, v in out.items() if v}, lc + sg * rc
    if isinstance(n, ast.Call):
        # resolve names inside the call so that min(era['untilYear'], self.until_year) is one atom whatever it is bound to
        return {ast.unparse(n): 1}, 0
    return {ast.unparse(n): 1}, 0


def _diff(a, b):
    """(a - b) as a constant, or None when the two linear forms differ in their symbolic part."""
    if a[0] != b[0]:
        return None
    return a[1] - b[1]


def marking_rules(R, tr, thorough=False):
    """R9 by interpretation (E-SEQ): _mark_rules_used_by_zones followed by _remove_rules_unused is evaluated on small zones
    (one to three eras, with and without a policy) and policies of one or two rules whose FROM/TO years sit on and around
    the era boundaries.  A rule must survive when an era selects it: its [FROM, TO] years meet the closed interval
    [year the era begins, year the era ends] (eras begin and end inside a year), or it is one of the latest rules that
    ended before the era began and no surviving rule started before the era (so the offset in force when the era begins
    comes from it)."""
    from .pyeval import PyEval, Raised
    R.rule('R9', 'a rule an era can select is not removed as unused: rules whose years meet the closed year interval of the era, and the '
                 'latest rules ended before it, survive _mark_rules_used_by_zones + _remove_rules_unused (interpreted on small zones)', floor=3)
    mf = tr.fn('Transformer._mark_rules_used_by_zones')
    tr.fn('Transformer._remove_rules_unused')
    START, UNTIL = 2000, 2050
    shapes = {
        'one-era': [('P', 9999)],
        'two-eras': [('P', 2010), ('P', 9999)],
        'fixed-then-policy': [('-', 2010), ('P', 9999)],
        'policy-fixed-policy': [('P', 2010), (':', 2020), ('P', 9999)],
        'two-policies': [('Q', 2010), ('P', 9999)],
        'policy-then-other': [('P', 2010), ('Q', 9999)],
        'policy-then-fixed': [('P', 2010), ('-', 9999)],
    }
    years = [1998, 1999, 2000, 2009, 2010, 2011, 2020, 2021] if thorough else [1998, 1999, 2000, 2010, 2011, 2020]
    pool = [(a, b, m) for a in years for b in years + [9999] if a <= b for m in (3, 10)]
    sets = [[x] for x in pool] + [[x, y] for i, x in enumerate(pool) for y in pool[i:]]
    if not thorough:
        sets = [s for s in sets if len(s) == 1 or s[0][2] == 3]
    base = 'tzdb.transformer.Transformer._mark_rules_used_by_zones'
    seen = {}
    nruns = 0

    def required(eras, rules):
        need = {}
        begin = START - 1
        for pol, until in eras:
            if pol == 'P':
                hi = until if until <= UNTIL else UNTIL - 1
                over = [i for i, (a, b, m) in enumerate(rules) if a <= hi and b >= begin]
                for i in over:
                    a, b, m = rules[i]
                    need.setdefault(i, ':until' if a == hi else ':begin' if b == begin else ':overlap')
                if not any(rules[i][0] < begin for i in over):
                    prior = [(b, m) for a, b, m in rules if b < begin]
                    if prior:
                        top = max(prior)
                        for i, (a, b, m) in enumerate(rules):
                            if (b, m) == top:
                                need.setdefault(i, ':prior')
            begin = until
        return need

    for shape, eras in shapes.items():
        for k in (':until', ':begin', ':overlap', ':prior'):
            R.instance('R9', base + k + '@' + shape, mf.loc)
        for rs in sets:
            zones_map = {'Z': [{'rules': pol, 'untilYear': u, 'untilMonth': 6, 'untilDay': 15, 'untilSeconds': 0, 'untilTimeSuffix': 'w'} for pol, u in eras]}
            mk = lambda a, b, m: {'fromYear': a, 'toYear': b, 'inMonth': m, 'onDay': '1', 'atSeconds': 7200, 'atTimeSuffix': 'w', 'deltaSeconds': 3600, 'letter': 'D'}
            prules = [mk(*x) for x in rs]
            rules_map = {'P': prules, 'Q': [mk(1990, 9999, 4)]}
            try:
                ev = PyEval(R.cfg, max_steps=200000)
                init = tr.fn('Transformer.__init__')
                vals = dict(zones_map=zones_map, rules_map=rules_map, links_map={}, scope='extended', start_year=START, until_year=UNTIL,
                            until_at_granularity=60, offset_granularity=60, strict=True)
                for p_ in init.params[1:]:
                    if p_ not in vals:
                        raise AnalysisError('%s: Transformer.__init__ has a parameter %s the abstraction does not know' % (init.loc, p_))
                me = ev.instantiate(tr, 'Transformer', kwargs={p_: vals[p_] for p_ in init.params[1:]})
                out = ev.call(tr, 'Transformer._mark_rules_used_by_zones', [zones_map, rules_map], recv=me)
                rm = out[1] if isinstance(out, (tuple, list)) and len(out) == 2 else rules_map
                kept = ev.call(tr, 'Transformer._remove_rules_unused', [rm], recv=me)
            except Raised as r_:
                raise AnalysisError('%s: interpretation raised %s' % (mf.loc, r_.what))
            except (KeyError, IndexError, TypeError) as x_:
                raise AnalysisError('%s: the abstraction of a zone/rule record lacks %r' % (mf.loc, x_))
            nruns += 1
            if not isinstance(kept, dict):
                raise AnalysisError('%s: _remove_rules_unused does not return the policy map' % mf.loc)
            left = kept.get('P') or []
            for i, why in required(eras, rs).items():
                if not any(x is prules[i] for x in left):
                    key = (shape, why)
                    if key not in seen:
                        seen[key] = True
                        a, b, m = rs[i]
                        txt = {':until': 'starts in the year the era ends', ':begin': 'ends in the year the era begins', ':overlap': 'runs during the era',
                               ':prior': 'is the latest rule before the era begins and no surviving rule started earlier'}[why]
                        R.violation('R9', base + why + '@' + shape, mf.loc,
                                    'zone with eras %s (start_year %d, until_year %d), policy P = %s: rule FROM %d TO %d IN month %d %s, but it is removed as unused'
                                    % (['%s until %d' % e for e in eras], START, UNTIL, [('%d-%d/%d' % x) for x in rs], a, b, m, txt))
    R.analysed['R9 interpreted zone/policy combinations'] = nruns


def run(cfg):
    R = Report('C03', cfg)
    tr = py.load(cfg, TR)
    marking_rules(R, tr, thorough=(cfg.tier == 'thorough'))
    accounting_rules(R, tr)
    role_rules(cfg, R, tr)
    lint_rules(cfg, R)
    extractor_rules(cfg, R)
    from . import rules_C03b
    rules_C03b.sweep_accounting(cfg, R)
    return R


SELFTEST = [
    dict(id='delta-truncated-to-offset-granularity-only', file='tools/tzdb/transformer.py', unique=False, nth=1,
         find='delta_granularity = max(self.offset_granularity, 900)', replace='delta_granularity = self.offset_granularity', rule='R11'),
    dict(id='fixed-rules-delta-truncated-to-offset-granularity-only', file='tools/tzdb/transformer.py', unique=False, nth=0,
         find='delta_granularity = max(self.offset_granularity, 900)', replace='delta_granularity = self.offset_granularity', rule='R11'),
    dict(id='removed-zone-without-reason', file='tools/tzdb/transformer.py',
         find="                        _add_reason(\n                            removed_zones, name,\n                            f\"offset in RULES '{rules_string}'\")\n",
         replace='', rule='R10'),
    dict(id='python-table-crosses-fields', file='tools/zonedb/pygenerator.py', find="            untilMonth=era['untilMonth'],", replace="            untilMonth=era['untilDay'],", rule='R12'),
    dict(id='python-table-holds-untruncated-offset', file='tools/zonedb/pygenerator.py', find="            offsetSeconds=era['offsetSecondsTruncated'],",
         replace="            offsetSeconds=era['offsetSeconds'],", rule='R12'),
    dict(id='zone-notes-not-handed-on', file='tools/tzdb/transformer.py',
         find='            {k: list(v) for k, v in self.all_notable_zones.items()},', replace='            {},', rule='R11'),
    dict(id='reason-not-recorded', file='tools/tzdb/transformer.py',
         find='            else:\n                _add_reason(removed_zones, name, "no ZoneEra found")', replace='            else:\n                pass', rule='R1', construct='_remove_zones_without_eras'),
    dict(id='empty-zone-dropped-silently', file='tools/tzdb/transformer.py', regex=True,
         find=r"(                    count \+= 1\n)            results\[name\] = keep_eras\n\n        logging.info\(\"Removed %s zone eras before", replace=r'\1            if keep_eras:\n                results[name] = keep_eras\n\n        logging.info("Removed %s zone eras before', rule='R1', construct='_remove_zone_eras_too_old'),
    dict(id='break-without-reason', file='tools/tzdb/transformer.py', regex=True,
         find=r"(                if rule_name not in \['-', ':'\] and rule_name not in rules_map:\n                    valid = False\n)                    _add_reason\(\n                        removed_zones, name,\n                        f\"policy '\{rule_name\}' not found\"\)\n", replace=r'\1', rule='R1', construct='_remove_zones_without_rules'),
    dict(id='zones-merged-into-policies', file='tools/tzdb/transformer.py', regex=True,
         find=r'("Removed %s zone infos with unsupported UNTIL time suffix",\n            len\(removed_zones\)\)\n        self._print_removed_map\(removed_zones\)\n        _merge_reasons\(self.all_removed_)zones', replace=r'\1policies', rule='R2'),
    dict(id='notable-merged-into-removed', file='tools/tzdb/transformer.py', unique=False, nth=0,
         find='        _merge_reasons(self.all_notable_zones, notable_zones)', replace='        _merge_reasons(self.all_removed_zones, notable_zones)', rule='R2'),
    dict(id='merge-deleted', file='tools/tzdb/transformer.py', regex=True,
         find=r"(            \"Removed %s zone infos without ZoneEras\" % len\(removed_zones\)\)\n        self._print_removed_map\(removed_zones\)\n)        _merge_reasons\(self.all_removed_zones, removed_zones\)\n", replace=r'\1', rule='R3', construct='_remove_zones_without_eras'),
    dict(id='unpack-order-swapped', file='tools/tzcompiler.py', find='        zones_map, rules_map, links_map, removed_zones, removed_policies,\n        removed_links, notable_zones,',
         replace='        zones_map, rules_map, links_map, removed_policies, removed_zones,\n        removed_links, notable_zones,', rule='R4'),
    dict(id='collector-key-crossed', file='tools/tzdb/tzdbcollector.py', find="            'removed_links': removed_links,", replace="            'removed_links': removed_zones,", rule='R4'),
    dict(id='generator-keyword-crossed', file='tools/zonedb/argenerator.py', find="            notable_links=tzdb['notable_links'],", replace="            notable_links=tzdb['removed_links'],", rule='R4'),
    dict(id='placeholder-dropped', file='tools/zonedb/argenerator.py', find='{removedLinkItems}', replace='', rule='R4', construct='removed_links'),
    dict(id='filter-call-deleted', file='tools/tzdb/transformer.py', find='        rules_map = self._remove_rules_out_of_bounds(rules_map)\n', replace='', rule='R5'),
    dict(id='filter-result-discarded', file='tools/tzdb/transformer.py', find='        zones_map = self._remove_zones_with_non_monotonic_until(zones_map)', replace='        self._remove_zones_with_non_monotonic_until(zones_map)', rule='R10'),
    dict(id='filter-result-to-wrong-map', file='tools/tzdb/transformer.py', find='        zones_map = self._remove_zones_without_rules(zones_map, rules_map)', replace='        rules_map = self._remove_zones_without_rules(zones_map, rules_map)', rule='R10'),
    dict(id='to-year-not-checked', file='tools/tzdb/transformer.py', find='if not is_year_tiny(from_year) or not is_year_tiny(to_year):', replace='if not is_year_tiny(from_year) or not is_year_tiny(from_year):', rule='R6'),
    dict(id='fstring-percent', file='tools/tzdb/transformer.py', find="""                        f"invalid AT time '{at_time}'")""", replace="""                        f"invalid AT time '{at_time}'" % at_time)""", rule='R7'),
    dict(id='format-arity', file='tools/tzdb/transformer.py', find="""                    "Found %d transitions in year/month '%04d-%02d'" % removal)""", replace="""                    "Found %d transitions in year/month '%04d-%02d'" % (removal[0], removal[1]))""", rule='R7'),
    dict(id='prior-rules-include-the-era-year', file='tools/tzdb/transformer.py', unique=False, nth=0, find='        if rule_year < year:\n            rule_date = (rule_year, rule_month)\n            if rule_date > candidate_date:',
         replace='        if rule_year <= year:\n            rule_date = (rule_year, rule_month)\n            if rule_date > candidate_date:', rule='R9', construct=':prior'),
    dict(id='prior-rules-keep-earliest', file='tools/tzdb/transformer.py', find='            if rule_date > candidate_date:', replace='            if rule_date >= candidate_date:', rule='R9', construct=':prior'),
    dict(id='marking-stops-before-until-year', file='tools/tzdb/transformer.py',
         find='                matching_rules = find_matching_rules(rules, begin_year,\n                                                     until_year + 1)',
         replace='                matching_rules = find_matching_rules(rules, begin_year,\n                                                     until_year)', rule='R9', construct=':until'),
    dict(id='marking-next-era-starts-late', file='tools/tzdb/transformer.py',
         find="                begin_year = era['untilYear']\n\n        return (zones_map, rules_map)", replace="                begin_year = era['untilYear'] + 1\n\n        return (zones_map, rules_map)", rule='R9', construct=':begin'),
    dict(id='overlap-test-strict-lower', file='tools/tzdb/transformer.py',
         find="        if rule['fromYear'] < era_until and era_from <= rule['toYear']:", replace="        if rule['fromYear'] < era_until and era_from < rule['toYear']:", rule='R9'),
    dict(id='marking-closed-interval-spelling-silent', edits=[
        dict(file='tools/tzdb/transformer.py', find='                matching_rules = find_matching_rules(rules, begin_year,\n                                                     until_year + 1)',
             replace='                matching_rules = find_matching_rules(rules, begin_year,\n                                                     until_year)'),
        dict(file='tools/tzdb/transformer.py', find="        if rule['fromYear'] < era_until and era_from <= rule['toYear']:", replace="        if rule['fromYear'] <= era_until and era_from <= rule['toYear']:")],
         expect='silent'),
    dict(id='filters-reordered-silent', file='tools/tzdb/transformer.py',
         find="        zones_map = self._remove_zone_eras_too_old(zones_map)\n        zones_map = self._remove_zone_eras_too_new(zones_map)",
         replace="        zones_map = self._remove_zone_eras_too_new(zones_map)\n        zones_map = self._remove_zone_eras_too_old(zones_map)", expect='silent'),
    dict(id='early-continue-idiom-silent', file='tools/tzdb/transformer.py',
         find='            if eras:\n                results[name] = eras\n            else:\n                _add_reason(removed_zones, name, "no ZoneEra found")',
         replace='            if not eras:\n                _add_reason(removed_zones, name, "no ZoneEra found")\n                continue\n            results[name] = eras', expect='silent'),
    # the book-keeping of a rule filter moved behind a context manager (a generator that yields the reason map): quiet when the part
    # after the yield still merges the reasons, reported when it does not
    dict(id='reasons-merged-by-a-context-manager-silent', edits=[
        dict(file='tools/tzdb/transformer.py', find='import datetime\nfrom collections import OrderedDict\n',
             replace='import datetime\nfrom collections import OrderedDict\nfrom contextlib import contextmanager\n'),
        dict(file='tools/tzdb/transformer.py', find='    # --------------------------------------------------------------------\n    # Methods related to Zones.\n',
             replace='    @contextmanager\n    def _removing_policies(self, summary):\n        removed_policies: CommentsCollection = {}\n        yield removed_policies\n        logging.info(summary % len(removed_policies))\n        self._print_removed_map(removed_policies)\n        _merge_reasons(self.all_removed_policies, removed_policies)\n\n    # --------------------------------------------------------------------\n    # Methods related to Zones.\n'),
        dict(file='tools/tzdb/transformer.py', find='        removed_policies: CommentsCollection = {}\n        for name, rules in rules_map.items():\n            valid = True\n            for rule in rules:\n                letter = rule[\'letter\']\n                if len(letter) > 1:\n                    valid = False\n                    _add_reason(\n                        removed_policies, name,\n                        f"LETTER \'{letter}\' too long")\n                    break\n            if valid:\n                results[name] = rules\n\n        logging.info(\'Removed %s rule policies with long DST letter\' %\n                     len(removed_policies))\n        self._print_removed_map(removed_policies)\n        _merge_reasons(self.all_removed_policies, removed_policies)\n',
             replace='        with self._removing_policies(\'Removed %s rule policies with long DST letter\') as removed_policies:\n            for name, rules in rules_map.items():\n                valid = True\n                for rule in rules:\n                    letter = rule[\'letter\']\n                    if len(letter) > 1:\n                        valid = False\n                        _add_reason(\n                            removed_policies, name,\n                            f"LETTER \'{letter}\' too long")\n                        break\n                if valid:\n                    results[name] = rules\n')],
         expect='silent'),
    dict(id='context-manager-forgets-to-merge-the-reasons', edits=[
        dict(file='tools/tzdb/transformer.py', find='import datetime\nfrom collections import OrderedDict\n',
             replace='import datetime\nfrom collections import OrderedDict\nfrom contextlib import contextmanager\n'),
        dict(file='tools/tzdb/transformer.py', find='    # --------------------------------------------------------------------\n    # Methods related to Zones.\n',
             replace='    @contextmanager\n    def _removing_policies(self, summary):\n        removed_policies: CommentsCollection = {}\n        yield removed_policies\n        logging.info(summary % len(removed_policies))\n        self._print_removed_map(removed_policies)\n\n    # --------------------------------------------------------------------\n    # Methods related to Zones.\n'),
        dict(file='tools/tzdb/transformer.py', find='        removed_policies: CommentsCollection = {}\n        for name, rules in rules_map.items():\n            valid = True\n            for rule in rules:\n                letter = rule[\'letter\']\n                if len(letter) > 1:\n                    valid = False\n                    _add_reason(\n                        removed_policies, name,\n                        f"LETTER \'{letter}\' too long")\n                    break\n            if valid:\n                results[name] = rules\n\n        logging.info(\'Removed %s rule policies with long DST letter\' %\n                     len(removed_policies))\n        self._print_removed_map(removed_policies)\n        _merge_reasons(self.all_removed_policies, removed_policies)\n',
             replace='        with self._removing_policies(\'Removed %s rule policies with long DST letter\') as removed_policies:\n            for name, rules in rules_map.items():\n                valid = True\n                for rule in rules:\n                    letter = rule[\'letter\']\n                    if len(letter) > 1:\n                        valid = False\n                        _add_reason(\n                            removed_policies, name,\n                            f"LETTER \'{letter}\' too long")\n                        break\n                if valid:\n                    results[name] = rules\n')],
         rule='R10'),
]
