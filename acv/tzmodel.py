"""A model of the third-party time-zone libraries (pytz, dateutil.tz) for the interpretation of the reference-data
generators (tools/compare_pytz, tools/compare_dateutil): zones are lists of periods (UTC start, total offset, DST part,
abbreviation) and implement the `datetime.tzinfo` protocol (PEP 495 folds), pytz's localize/normalize and dateutil's
gettz/resolve_imaginary.  The model is the checker's, not the repository's: what the generators must produce from it is
computed here, independently, by `expected_items`."""
import datetime as _dt

UNIX_TO_ACE = 946684800
UTC = _dt.timezone.utc


class ModelTz(_dt.tzinfo):
    pyeval_native = ('utcoffset', 'dst', 'tzname', 'fromutc', 'localize', 'normalize', 'zone')

    def __init__(self, name, periods):
        """periods: [(start as naive UTC datetime or None, total seconds, dst seconds, abbreviation)], ascending"""
        self.zone = name
        self.periods = periods

    def __repr__(self):
        return '<ModelTz %s>' % self.zone

    def _at_utc(self, u):
        cur = self.periods[0]
        for p in self.periods:
            if p[0] is None or p[0] <= u:
                cur = p
        return cur

    def _candidates(self, wall):
        out = []
        for i, p in enumerate(self.periods):
            u = wall - _dt.timedelta(seconds=p[1])
            end = self.periods[i + 1][0] if i + 1 < len(self.periods) else None
            if (p[0] is None or p[0] <= u) and (end is None or u < end):
                out.append(p)
        return out

    def _at_wall(self, dt):
        wall = dt.replace(tzinfo=None, fold=0)
        c = self._candidates(wall)
        if len(c) == 1:
            return c[0]
        if len(c) >= 2:
            return c[1] if dt.fold else c[0]
        # a wall time that does not exist: fold=0 reads it with the offset before the gap, fold=1 with the one after
        before = None
        for i, p in enumerate(self.periods[:-1]):
            nxt = self.periods[i + 1]
            if nxt[0] + _dt.timedelta(seconds=p[1]) <= wall < nxt[0] + _dt.timedelta(seconds=nxt[1]):
                before = (p, nxt)
        if before is None:
            return self.periods[-1]
        return before[1] if dt.fold else before[0]

    def utcoffset(self, dt):
        return None if dt is None else _dt.timedelta(seconds=self._at_wall(dt)[1])

    def dst(self, dt):
        return None if dt is None else _dt.timedelta(seconds=self._at_wall(dt)[2])

    def tzname(self, dt):
        return None if dt is None else self._at_wall(dt)[3]

    def fromutc(self, dt):
        u = dt.replace(tzinfo=None)
        p = self._at_utc(u)
        wall = u + _dt.timedelta(seconds=p[1])
        c = self._candidates(wall)
        fold = 1 if (len(c) >= 2 and c[1] is p) else 0
        return wall.replace(tzinfo=self, fold=fold)

    # pytz
    def localize(self, dt, is_dst=False):
        if dt.tzinfo is not None:
            raise ValueError('Not naive datetime (tzinfo is already set)')
        c = self._candidates(dt)
        if len(c) >= 2:
            std = [p for p in c if (p[2] != 0) == bool(is_dst)]
            pick = std[0] if std else c[0]
            return dt.replace(tzinfo=self, fold=1 if pick is c[1] else 0)
        return dt.replace(tzinfo=self, fold=0)

    def normalize(self, dt):
        if dt.tzinfo is None:
            raise ValueError('Naive time - no tzinfo set')
        u = (dt.replace(tzinfo=None) - dt.utcoffset())
        return self.fromutc(u.replace(tzinfo=self))

    def exists(self, dt):
        return bool(self._candidates(dt.replace(tzinfo=None, fold=0)))


def resolve_imaginary(dt):
    """dateutil.tz.resolve_imaginary: a wall time inside a gap is moved forward by the size of the gap"""
    tz = dt.tzinfo
    if isinstance(tz, ModelTz) and not tz.exists(dt):
        before = dt.replace(fold=0).utcoffset()
        after = dt.replace(fold=1).utcoffset()
        return (dt + (after - before)).replace(fold=0)
    return dt


def U(y, mo, d, h=0, mi=0):
    return _dt.datetime(y, mo, d, h, mi)


def model_zones():
    H = 3600
    return {
        'Model/Yearly': ModelTz('Model/Yearly', [(None, -8 * H, 0, 'PST'), (U(2000, 4, 2, 10, 0), -7 * H, H, 'PDT'), (U(2000, 10, 29, 9, 0), -8 * H, 0, 'PST'),
                                                  (U(2001, 4, 1, 10, 0), -7 * H, H, 'PDT'), (U(2001, 10, 28, 9, 0), -8 * H, 0, 'PST')]),
        'Model/Shift': ModelTz('Model/Shift', [(None, 5 * H, 0, 'AAT'), (U(2000, 6, 15, 18, 37), 5 * H + 1800, 0, 'ABT')]),
        'Model/OnlyDst': ModelTz('Model/OnlyDst', [(None, H, 0, 'CET'), (U(2001, 3, 11, 1, 0), H, H, 'WEST'), (U(2001, 9, 9, 1, 0), H, 0, 'CET')]),
        'Model/Fixed': ModelTz('Model/Fixed', [(None, -3 * H, 0, 'FXT')]),
        'Model/East': ModelTz('Model/East', [(None, 12 * H, 0, 'NZST'), (U(2000, 9, 30, 14, 0), 13 * H, H, 'NZDT'), (U(2001, 3, 17, 14, 0), 12 * H, 0, 'NZST')]),
        # winter time as a negative DST part
        'Model/NegDst': ModelTz('Model/NegDst', [(None, H, 0, 'IST'), (U(2000, 10, 29, 1, 0), 0, -H, 'GMT'), (U(2001, 3, 25, 1, 0), H, 0, 'IST'),
                                                  (U(2001, 10, 28, 1, 0), 0, -H, 'GMT')]),
        # clocks go forward at local midnight on the first of a month: the monthly sample of that day does not exist
        'Model/MidnightGap': ModelTz('Model/MidnightGap', [(None, -3 * H, 0, 'BRT'), (U(2000, 10, 1, 3, 0), -2 * H, H, 'BRST'), (U(2001, 2, 18, 2, 0), -3 * H, 0, 'BRT')]),
        # a shift at local New Year of the last year, far east of Greenwich: the scan must not stop at the local year
        'Model/NewYear': ModelTz('Model/NewYear', [(None, 13 * H, 0, 'WST'), (U(2001, 12, 31, 11, 0), 14 * H, 0, 'WSST')]),
        # the zone crosses the date line (a whole local day is skipped), later it has ordinary DST: a scan that steps the wall clock
        # instead of the instant is a day out of step from then on
        'Model/DateLine': ModelTz('Model/DateLine', [(None, -10 * H, 0, 'SST'), (U(2000, 5, 10, 10, 0), 14 * H, 0, 'WSST'), (U(2000, 9, 23, 10, 0), 15 * H, H, 'WSDT'),
                                                      (U(2001, 4, 7, 10, 0), 14 * H, 0, 'WSST'), (U(2001, 9, 29, 10, 0), 15 * H, H, 'WSDT')]),
    }


def item_at(tz, u, tag):
    """the TestItem of the UTC instant u (naive) in zone tz"""
    p = tz._at_utc(u)
    w = u + _dt.timedelta(seconds=p[1])
    epoch = int((u - _dt.datetime(1970, 1, 1)).total_seconds()) - UNIX_TO_ACE
    return {'epoch': epoch, 'total_offset': p[1], 'dst_offset': p[2], 'y': w.year, 'M': w.month, 'd': w.day, 'h': w.hour, 'm': w.minute, 's': w.second,
            'abbrev': p[3], 'type': tag}


def expected_items(tz, start_year, until_year, detect_dst=True):
    """what a reference-data generator has to produce for the zone: a left (T - 1 minute) and a right (T) item for every
    transition T of the model inside the years, tagged A/B (a/b when only the DST part changes), a sample on the first of
    every month at 00:00 local time and one on 31 December 23:59, ordered by epoch; a transition item wins over a sample
    of the same instant."""
    items = {}

    def add(it):
        cur = items.get(it['epoch'])
        if cur is None or it['type'] in ('A', 'B'):
            items[it['epoch']] = it
    for i in range(1, len(tz.periods)):
        prev, p = tz.periods[i - 1], tz.periods[i]
        t = p[0]
        if not (_dt.datetime(start_year, 1, 1) < t < _dt.datetime(until_year, 1, 1)):
            continue
        only_dst = prev[1] == p[1] and prev[2] != p[2]
        if prev[1] == p[1] and (prev[2] == p[2] or not detect_dst):
            continue
        add(item_at(tz, t - _dt.timedelta(minutes=1), 'a' if only_dst else 'A'))
        add(item_at(tz, t, 'b' if only_dst else 'B'))
    for y in range(start_year, until_year):
        for wall, tag in [(_dt.datetime(y, m, 1, 0, 0, 0), 'S') for m in range(1, 13)] + [(_dt.datetime(y, 12, 31, 23, 59, 0), 'Y')]:
            # a wall time that does not exist is read with the offset in force before the gap (which moves it past the gap)
            off = tz._at_wall(wall.replace(fold=0))[1]
            add(item_at(tz, wall - _dt.timedelta(seconds=off), tag))
    return [items[k] for k in sorted(items)]
