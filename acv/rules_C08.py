"""C08 - answers are independent of query history: the mechanisms (rebinding, cache look-up, cache-valid
flag, Python cache key) as path rules."""
import ast

from .common import AnalysisError, Report
from . import cxx, py
from .cxx import int_type
from .ir import E, walk_expr, walk_stmts, all_exprs, show
from .paths import Engine, Rule, path_of

META = {
    'explanation': 'E-PATH typestate rules over TimeZone.h/.cpp, ZoneProcessorCache.h, both zone processors and '
                   'ZoneSpecifier.init_for_year: every use of a shared processor is preceded on all paths by the '
                   'rebinding call; ZoneProcessorCacheImpl::getZoneProcessor interpreted (E-SEQ, typed) on every request sequence of up to SIZE + 3 '
                   'requests over SIZE + 1 zones (up to renaming): each answer is a slot bound to the requested zone; the cache-valid flag is '
                   'assigned on every path that overwrites key or content; E-GNF: the key stored by init() is the value '
                   'isFilled() was asked about and the fill helpers get the same year; who-may-write: the mutable members of a processor are written '
                   'only by init() and its helpers, setZoneInfo() and the constructors, unless both invalidating events reset them (R4-writers); '
                   'ast def-use: init_for_year resets '
                   'everything its helpers accumulate into; createAbbreviation terminates the pooled buffer at the copied length; TimeZone values of two '
                   'model zones sharing one processor, interpreted in full on every sequence of up to three (zone, instant) queries - two years, a '
                   'New Year, a year outside the zone data - against a fresh processor (R7, acv/rules_C04c.py).',
    'decided': 'rebinding before every processor use; managed arms use the processor the cache returned for this zone; '
               'cache look-up returns a bound processor and its index stays in range; cache-valid flag discipline in '
               'init()/setZoneInfo()/isFilled(); no cache state outside that discipline (a memo in a look-up that a re-bind does not clear); '
               'cache key == tested year == filled year; Python cache key is not left set on a '
               'raising path and every accumulated attribute is reset on a refill; abbreviation buffers do not keep bytes of an '
               'earlier zone or year; on the model zones the answers of one ZoneSpecifier object do not depend on what it was asked '
               'before (queries of other years, init_for_year(), get_buffer_sizes())',
    'not_decided': 'history dependence through any other channel than these mechanisms on zones unlike the model zones; sequences longer than three queries',
    'assumptions': ['clang 14 parser and template instantiation', 'CPython ast',
                    'virtual calls are resolved to the static callee ZoneProcessor::<m>; overriders are the two processors'],
}

TZ = 'ace_time::TimeZone'
ZP = 'ace_time::ZoneProcessor'


def zone_dependent_methods(lib):
    """Virtual members of ZoneProcessor whose answer depends on the bound zone (everything except the binder)."""
    out = set()
    for m in lib.methods(ZP):
        if m.get('virtual') and m.get('name') not in ('setZoneInfo', 'equals') and m.get('kind') == 'CXXMethodDecl':
            out.add(ZP + '::' + m['name'])
    if len(out) < 6:
        raise AnalysisError('anchor moved: ZoneProcessor has %d zone-dependent virtual members' % len(out))
    return out


class RebindRule(Rule):
    """state: frozenset of receiver paths that are bound to this->mZoneInfo on the current path."""

    def __init__(self, R, fn, uses):
        self.R, self.fn, self.uses = R, fn, uses
        self.sites = 0

    def initial(self):
        return [frozenset()]

    def event(self, e, st, tr):
        if e.k != 'call' or e.a[1] is None:
            return st
        recv = path_of(e.a[1])
        if recv != 'this.mZoneProcessor':
            return st
        if e.a[0] == ZP + '::setZoneInfo':
            if len(e.a[2]) == 1 and path_of(e.a[2][0]) == 'this.mZoneInfo':
                return st | {recv}
            self.R.instance('R1', self.fn.name, e.loc)
            self.R.violation('R1', self.fn.name, e.loc, 'processor is rebound to %s, not to this zone (mZoneInfo)' % show(e.a[2][0]))
            return st
        if e.a[0] in self.uses:
            self.sites += 1
            c = '%s->%s' % (self.fn.name, e.a[0].split('::')[-1])
            self.R.instance('R1', c, e.loc, 'use of the shared processor')
            if recv not in st:
                self.R.violation('R1', c, e.loc,
                                 'shared processor used without mZoneProcessor->setZoneInfo(mZoneInfo) on this path: '
                                 'another TimeZone bound to the same processor answers instead',
                                 detail=list(tr))
        return st


class ManagedRule(Rule):
    """state: dict-like frozenset of (var, status) with status in maybe/nonnull for locals assigned from
    mZoneProcessorCache->getZoneProcessor(mZoneInfo)."""

    def __init__(self, R, fn, uses):
        self.R, self.fn, self.uses = R, fn, uses

    def initial(self):
        return [frozenset()]

    def _get(self, st, v):
        for k, s in st:
            if k == v:
                return s
        return None

    def _set(self, st, v, s):
        return frozenset([(k, x) for k, x in st if k != v] + ([(v, s)] if s else []))

    def assign(self, s, st, tr):
        if s.k == 'decl':
            name, init = s.a[0], s.a[2]
        elif s.a[0].k == 'var':
            name, init = s.a[0].a[0], s.a[1]
        else:
            return st
        while init is not None and init.k in ('cast', 'ptrcast'):
            init = init.a[-1]
        if init is not None and init.k == 'call' and init.a[0] == 'ace_time::ZoneProcessorCache::getZoneProcessor' \
                and init.a[1] is not None and path_of(init.a[1]) == 'this.mZoneProcessorCache':
            ok = len(init.a[2]) == 1 and path_of(init.a[2][0]) == 'this.mZoneInfo'
            if not ok:
                self.R.instance('R2', self.fn.name, s.loc)
                self.R.violation('R2', self.fn.name, s.loc, 'cache is asked for %s, not for this zone (mZoneInfo)' % show(init.a[2][0]))
                return self._set(st, name, None)
            return self._set(st, name, 'maybe')
        if init is not None and init.k == 'null':
            return self._set(st, name, 'null')
        if init is not None and path_of(init) == 'this.mZoneProcessor':
            # the shared processor under a local name: as good as the member itself, i.e. usable when rebound on this path
            return self._set(st, name, 'shared-bound' if self._get(st, '#shared') else 'shared-unbound')
        if init is not None and init.k == 'var' and self._get(st, init.a[0]) is not None:
            return self._set(st, name, self._get(st, init.a[0]))
        return self._set(st, name, None)

    def refine(self, cond, st, truth):
        p, positive = null_test(cond)
        cur = self._get(st, p) if p is not None else None
        if cur is not None:
            nonnull = truth == positive
            if cur == 'null':
                return None if nonnull else st          # a pointer that is null on this path is not "true"
            if cur in ('nonnull', 'shared-bound', 'shared-unbound'):
                return st if nonnull else (None if cur == 'nonnull' else self._set(st, p, 'null'))
            return self._set(st, p, 'nonnull') if nonnull else self._set(st, p, 'null')
        return st

    def event(self, e, st, tr):
        if e.k == 'call' and e.a[1] is not None and e.a[0] == ZP + '::setZoneInfo' and path_of(e.a[1]) == 'this.mZoneProcessor' \
                and len(e.a[2]) == 1 and path_of(e.a[2][0]) == 'this.mZoneInfo':
            return self._set(st, '#shared', 'bound')
        if e.k == 'call' and e.a[1] is not None and e.a[0] in self.uses:
            recv = path_of(e.a[1])
            if recv == 'this.mZoneProcessor' or recv is None:
                return st
            c = '%s->%s' % (self.fn.name, e.a[0].split('::')[-1])
            self.R.instance('R2', c, e.loc, 'use of a cache-provided processor')
            s = self._get(st, recv)
            if s in ('shared-bound', 'shared-unbound'):
                self.R.instance('R1', c, e.loc, 'use of the shared processor under the local name %s' % recv)
            if s is None:
                self.R.violation('R2', c, e.loc, 'processor %s does not come from mZoneProcessorCache->getZoneProcessor(mZoneInfo) on this path' % recv,
                                 detail=list(tr))
            elif s == 'shared-unbound':
                self.R.violation('R2', c, e.loc, 'processor %s is the shared mZoneProcessor, used without mZoneProcessor->setZoneInfo(mZoneInfo) on this path' % recv,
                                 detail=list(tr))
            elif s not in ('nonnull', 'shared-bound'):
                self.R.violation('R2', c, e.loc, 'processor %s is used without a null test on this path' % recv, detail=list(tr))
        return st


def null_test(cond):
    """(path, positive): cond is `p` / `p != null` (positive: true means non-null) or `p == null` / `!p`."""
    if cond.k == 'bin' and cond.a[0] in ('==', '!='):
        for x, y in ((cond.a[1], cond.a[2]), (cond.a[2], cond.a[1])):
            if y.k == 'null' or (y.k == 'const' and y.a[0] == 0):
                p = path_of(x)
                if p is not None:
                    return p, cond.a[0] == '!='
        return None, True
    return path_of(cond), True


def run(cfg):
    R = Report('C08', cfg)
    lib = cxx.load_lib(cfg)
    R.analysed['translation_units'] = ['tu/lib.cpp']
    uses = zone_dependent_methods(lib)
    R.rule('R1', 'every use of TimeZone::mZoneProcessor is preceded on all paths by mZoneProcessor->setZoneInfo(mZoneInfo)', floor=6)
    R.rule('R2', 'managed arms use the null-tested processor returned by mZoneProcessorCache->getZoneProcessor(mZoneInfo)', floor=6)
    fns = [f for q, fs in lib.funcs.items() if q.startswith(TZ + '::') for f in fs]
    if not fns:
        raise AnalysisError('anchor vanished: no member functions of %s' % TZ)
    R.analysed['functions'] = sorted({f.name for f in fns})
    for f in fns:
        Engine(RebindRule(R, f, uses)).run(f.body)
        Engine(ManagedRule(R, f, uses)).run(f.body)
    cache_rules(R, lib)
    for cls in ('ace_time::BasicZoneProcessor', 'ace_time::ExtendedZoneProcessor'):
        flag_rules(R, lib, cls)
    python_rules(cfg, R)
    from . import rules_C04c
    rules_C04c.history_rule(R, cfg, lib, 'R7')
    rules_C04c.python_history_rule(R, cfg, 'R8')
    abbrev_buffer_rule(R, lib)
    return R


# -- R3: the cache returns a processor bound to the request ------------------------------------------

class CacheRule(Rule):
    """state: frozenset of (var, status); status: found? (result of findUsingZoneInfo(key), untested),
    bound (non-null result of the look-up, or setZoneInfo(key) applied), raw (slot address, unbound)."""

    def __init__(self, R, fn, key_param):
        self.R, self.fn, self.key = R, fn, key_param
        self.returns = 0
        # the key under another name: a local initialised with the (converted) key parameter and never assigned again
        self.keys = {key_param}
        assigned = {s.a[0].a[0] for s in walk_stmts(fn.body) if s.k == 'assign' and s.a[0].k == 'var'}
        for s in walk_stmts(fn.body):
            if s.k == 'decl' and s.a[2] is not None and s.a[0] not in assigned and self._strip(s.a[2]).k == 'var' and self._strip(s.a[2]).a[0] in self.keys:
                self.keys.add(s.a[0])

    @staticmethod
    def _strip(e):
        while e.k in ('cast', 'ptrcast'):
            e = e.a[-1]
        return e

    def initial(self):
        return [frozenset()]

    def _get(self, st, v):
        for k, s in st:
            if k == v:
                return s
        return None

    def _set(self, st, v, s):
        return frozenset([(k, x) for k, x in st if k != v] + [(v, s)])

    def _is_key(self, e):
        return path_of(self._strip(e)) in self.keys

    def assign(self, s, st, tr):
        if s.k == 'decl':
            name, init = s.a[0], s.a[2]
        elif s.a[0].k == 'var':
            name, init = s.a[0].a[0], s.a[1]
        else:
            return st
        if init is None:
            return st
        init = self._strip(init)
        if init.k == 'call' and init.a[0].endswith('::findUsingZoneInfo'):
            if len(init.a[2]) == 1 and self._is_key(init.a[2][0]):
                return self._set(st, name, 'found?')
            return self._set(st, name, 'raw')
        return self._set(st, name, 'raw')

    def refine(self, cond, st, truth):
        p, positive = null_test(cond)
        if p is not None and self._get(st, p) == 'found?':
            return self._set(st, p, 'bound' if truth == positive else 'raw')
        return st

    def event(self, e, st, tr):
        if e.k == 'call' and e.a[0].endswith('::setZoneInfo') and e.a[1] is not None:
            recv = path_of(e.a[1])
            if recv is not None and len(e.a[2]) == 1 and self._is_key(e.a[2][0]):
                return self._set(st, recv, 'bound')
        return st

    def at_exit(self, kind, stmt, st, tr):
        if kind != 'return' or stmt.a[0] is None:
            return
        self.returns += 1
        p = path_of(stmt.a[0])
        c = self.fn.name
        self.R.instance('R3', c, stmt.loc, 'returned processor')
        if p is None or self._get(st, p) != 'bound':
            self.R.violation('R3', c, stmt.loc, 'returns %s, which is neither the non-null result of findUsingZoneInfo(%s) nor '
                             'rebound with setZoneInfo(%s) on this path' % (show(stmt.a[0]), self.key, self.key), detail=list(tr))


def cache_rules(R, lib):
    """ZoneProcessorCacheImpl::getZoneProcessor is interpreted (E-SEQ, typed; the look-up helper, the round-robin index and the
    slot array through their real bodies, the processors abstracted to the zone they are bound to) on every sequence of up
    to SIZE + 3 requests over SIZE + 1 different zones (up to renaming of the zones), for every instantiation in the library: each answer must be a slot of
    the cache that is bound to the requested zone, a zone already held by a slot must be served by that slot without any
    other slot being re-bound, and no request may read or write outside the slot array (R3, R3-find, R3-index)."""
    import itertools
    from .aeval import AEval, AObj, CxxModule, Raised, Ref
    R.rule('R3', 'ZoneProcessorCacheImpl::getZoneProcessor returns only processors bound to the requested zone (interpreted on request sequences)', floor=4)
    R.rule('R3-find', 'a zone that a slot already holds is served by that slot; no other slot is re-bound', floor=2)
    R.rule('R3-index', 'the round-robin index stays inside the slot array on every request sequence', floor=2)
    q = 'ace_time::ZoneProcessorCacheImpl'
    fs = lib.fns(q + '::getZoneProcessor')
    if len(fs) < 2:
        raise AnalysisError('anchor moved: %s::getZoneProcessor instantiations: %d' % (q, len(fs)))
    mod = CxxModule(lib, ['ace_time::'])

    def get_zone(ev, recv, args):
        return recv.attrs['zone']

    def set_zone(ev, recv, args):
        recv.attrs['zone'] = args[0]
        recv.attrs['rebinds'] += 1
        return None
    intr = {}
    for cls in ('ace_time::ZoneProcessor', 'ace_time::BasicZoneProcessor', 'ace_time::ExtendedZoneProcessor'):
        intr[cls + '::getZoneInfo'] = get_zone
        intr[cls + '::setZoneInfo'] = set_zone
    from .cxx import nty
    for f in fs:
        cls = [c for c in lib.classes.get(q, []) if c.get('_inst') == f.inst]
        fields = {}
        inits = {}
        if cls:
            for x in cls[0].get('inner', []):
                if x.get('kind') == 'FieldDecl':
                    fields[x['name']] = nty(x)
                    # the value the member starts with: its in-class initialiser, else zero / null
                    ini = [y for y in x.get('inner', []) if y.get('kind') not in ('FullComment',) and 'Attr' not in y.get('kind', '')]
                    v_ = lib.fold_node(ini[0]) if ini else None
                    inits[x['name']] = None if '*' in (nty(x) or '') else (v_ if v_ is not None else 0)
                    if ini and v_ is None and not (nty(x) or '').endswith(']'):
                        inits[x['name']] = ('expr', ini[-1])          # an initialiser that is not a constant (a constructor call, the slot array)
        arr = [n for n, ty in fields.items() if ty and ty.endswith(']')]
        idx = [n for n, ty in fields.items() if ty and int_type_of(ty)]
        # the position may be wrapped in a small class of its own: a member of class type that holds exactly one integer
        boxed = {}
        for n_, ty_ in fields.items():
            if ty_ and not ty_.endswith(']') and '*' not in ty_ and not int_type_of(ty_):
                q_ = ty_.replace('const ', '').strip()
                bare_, d_ = '', 0
                for ch_ in q_:
                    if ch_ == '<':
                        d_ += 1
                    elif ch_ == '>':
                        d_ -= 1
                    elif d_ == 0:
                        bare_ += ch_
                try:
                    inner_ = [(m_, t_) for m_, t_, _x in lib.fields(bare_)]
                except Exception:
                    inner_ = []
                ints_ = [m_ for m_, t_ in inner_ if int_type_of(t_)]
                if len(ints_) == 1:
                    boxed[n_] = (q_, ints_[0])
        # ... or be a pointer into the slot array (a cursor initialised with the array)
        ptrcur = [n_ for n_, ty_ in fields.items() if ty_ and ty_.rstrip().endswith('*') and isinstance(inits.get(n_), tuple)]
        if len(arr) != 1 or not (idx or boxed or ptrcur):
            raise AnalysisError('%s: expected one slot array and an index in the cache, found %r / %r' % (f.loc, arr, idx))
        ty = fields[arr[0]]
        size = int(ty[ty.rindex('[') + 1:-1])
        zones = ['zone%d' % k for k in range(size + 1)]
        bad = {'R3': None, 'R3-find': None, 'R3-index': None}
        n = 0
        def canonical(length, k):
            # request sequences up to renaming of the zones (the cache only compares zones for equality): each new zone is the
            # lowest unused one
            def rec(prefix, used):
                if len(prefix) == length:
                    yield tuple(prefix)
                    return
                for z_ in range(min(used + 1, k)):
                    yield from rec(prefix + [z_], max(used, z_ + 1))
            return rec([], 0)
        # long enough for "held, held again, evicted by SIZE other zones, asked again"
        for length in range(1, size + 4):
            for seq_ in canonical(length, size + 1):
                seq = tuple(zones[i_] for i_ in seq_)
                slots = [AObj({'zone': None, 'rebinds': 0}, oid='slot%d' % k, cls='processor') for k in range(size)]
                attrs_ = dict(inits)
                for n_, (q_, _m) in boxed.items():
                    from .ir import E
                    from .cxx import Lowerer
                    ini_ = inits.get(n_)
                    e_ = Lowerer(lib).expr(ini_[1]) if isinstance(ini_, tuple) and ini_ and ini_[0] == 'expr' else E('init', q_, [])
                    attrs_[n_] = AEval(module=mod, intrinsics=intr, typed=True, max_steps=5000).ev(e_, {}, 0)
                    for k2_, v2_ in list(attrs_[n_].attrs.items()):
                        if v2_ is None and k2_ == boxed[n_][1]:
                            attrs_[n_].attrs[k2_] = 0                # a position without an initialiser: zero-initialised with the cache
                attrs_[arr[0]] = slots
                late_ = {n_: v_ for n_, v_ in attrs_.items() if isinstance(v_, tuple) and v_ and v_[0] == 'expr' and n_ not in boxed}
                for n_ in late_:
                    attrs_[n_] = None
                cache = AObj(attrs_, oid='cache', cls=q, ftypes={n_: int_type_of(ty_) for n_, ty_ in fields.items() if ty_ and int_type_of(ty_)})
                for n_, (_k, node_) in late_.items():
                    # a member whose initialiser names other members (a cursor that starts at the slot array): evaluated on the object
                    from .cxx import Lowerer
                    cache.attrs[n_] = AEval(module=mod, intrinsics=intr, typed=True, max_steps=5000).ev(Lowerer(lib).expr(node_), {'self': cache}, 0)
                for step, z in enumerate(seq):
                    held = [s for s in slots if s.attrs['zone'] == z]
                    before = [s.attrs['rebinds'] for s in slots]
                    try:
                        ev = AEval(module=mod, intrinsics=intr, typed=True, max_steps=5000)
                        r = ev.call_function(f.name, [z], recv=cache, chosen=CxxModule._Fn(f))
                    except IndexError:
                        bad['R3-index'] = bad['R3-index'] or 'requests %s: request %d reads or writes outside the %d slots' % (list(seq), step + 1, size)
                        break
                    except Raised as x_:
                        bad['R3'] = bad['R3'] or 'requests %s: request %d raises %s' % (list(seq), step + 1, x_.what)
                        break
                    n += 1
                    for _ in range(3):
                        # a pointer to a slot, a pointer to that pointer's cell, the array itself (= its first element)
                        if isinstance(r, Ref):
                            r = r.get()
                        elif isinstance(r, list) and r:
                            r = r[0]
                    if not any(r is s for s in slots):
                        bad['R3'] = bad['R3'] or 'requests %s: request %d is answered with %r, which is not a slot of the cache' % (list(seq), step + 1, r)
                        break
                    if r.attrs['zone'] != z:
                        bad['R3'] = bad['R3'] or 'requests %s: request %d (for %s) is answered with a processor bound to %s' % (list(seq), step + 1, z, r.attrs['zone'])
                    if held and (r is not held[0] or [s.attrs['rebinds'] for s in slots] != before):
                        bad['R3-find'] = bad['R3-find'] or 'requests %s: %s is already held by %s, yet request %d is answered by %s and %d slot(s) are re-bound' % (
                            list(seq), z, held[0].oid, step + 1, r.oid, sum(1 for a_, b_ in zip(before, [s.attrs['rebinds'] for s in slots]) if a_ != b_))
                    if idx:
                        cur = cache.attrs[idx[0]]
                    elif boxed:
                        cur = cache.attrs[next(iter(boxed))].attrs[boxed[next(iter(boxed))][1]]
                    else:
                        cur = cache.attrs[ptrcur[0]]
                        cur = 0 if cur is slots else (cur.key if isinstance(cur, Ref) and cur.box is slots else None)     # a pointer: the slot it points to
                    if not (isinstance(cur, int) and 0 <= cur < size):
                        bad['R3-index'] = bad['R3-index'] or 'requests %s: after request %d the index is %r, outside [0, %d)' % (list(seq), step + 1, cur, size)
        for rid in ('R3', 'R3-find', 'R3-index'):
            c = '%s[%s,%s]' % (f.name, 'basic' if 'Basic' in (f.inst or '') else 'extended', (f.inst or '').split(',')[0].strip())
            R.instance(rid, c, f.loc, '%d interpreted requests, %d slots' % (n, size), n=2)
            if bad[rid]:
                R.violation(rid, c, f.loc, bad[rid])


def int_type_of(ty):
    from .cxx import int_type
    return int_type(ty)


def find_rule(R, f):
    """Every non-null return `&slots[i]` is control dependent on `slots[i].getZoneInfo() == key`."""
    key = f.params[0][0]
    defs = {}

    def slot(e):
        """the slot an expression designates, whether written as the element (slots[i], *p) or as its address (&slots[i], p)"""
        while e.k in ('cast', 'ptrcast', 'addr', 'deref'):
            e = e.a[-1] if e.k in ('cast', 'ptrcast') else e.a[0]
        return show(e)

    class FR(Rule):
        def initial(self_):
            return [frozenset()]

        def assign(self_, s, st, tr):
            if s.k == 'decl' and s.a[2] is not None:
                defs[s.a[0]] = s.a[2]
            name = s.a[0] if s.k == 'decl' else (s.a[0].a[0] if s.a[0].k == 'var' else None)
            if name is not None:
                # what was established about a slot named through this variable no longer holds once it moves on
                import re as _re
                st = frozenset(x for x in st if not _re.search(r'\b%s\b' % _re.escape(name), x))
            return st

        def refine(self_, cond, st, truth):
            if cond.k == 'bin' and cond.a[0] == '==' and truth:
                for x, y in ((cond.a[1], cond.a[2]), (cond.a[2], cond.a[1])):
                    if path_of(y) == key:
                        d = x
                        while d.k in ('cast', 'ptrcast'):
                            d = d.a[-1]
                        if d.k == 'var' and d.a[0] in defs:
                            d = defs[d.a[0]]
                            while d.k in ('cast', 'ptrcast'):
                                d = d.a[-1]
                        if d.k == 'call' and d.a[0].endswith('::getZoneInfo') and d.a[1] is not None:
                            return st | {slot(d.a[1])}
            return st

        def at_exit(self_, kind, stmt, st, tr):
            if kind == 'return' and stmt.a[0] is not None and stmt.a[0].k != 'null':
                R.instance('R3-find', f.name, stmt.loc)
                if slot(stmt.a[0]) not in st:
                    R.violation('R3-find', f.name, stmt.loc, 'returns %s without having compared its zone info with the key on this path' % show(stmt.a[0]), detail=list(tr))
    Engine(FR()).run(f.body)


def index_rule(R, lib, f):
    """mCurrentIndex: after `idx++`, `if (idx >= SIZE) idx = 0` on all paths before return; the slot taken is
    slots[idx] read before the increment."""
    size = None
    cls = [c for c in lib.classes.get('ace_time::ZoneProcessorCacheImpl', []) if c.get('_inst') == f.inst]
    from .cxx import nty
    fields = {}
    if cls:
        for x in cls[0].get('inner', []):
            if x.get('kind') == 'FieldDecl':
                fields[x['name']] = nty(x)
    arr = [n for n, t in fields.items() if t and t.endswith(']')]
    if len(arr) != 1:
        raise AnalysisError('%s: expected one slot array in the cache, found %r' % (f.loc, arr))
    t = fields[arr[0]]
    size = int(t[t.rindex('[') + 1:-1])
    arrp = 'this.' + arr[0]
    # interval analysis of the single counter used to index the slot array
    # the round-robin counter: the one integer member of the cache beside the slot array
    counters = [n for n, t in fields.items() if t and not t.endswith(']') and int_type(t)]
    if not counters and any(t and not t.endswith(']') and not int_type(t) for t in fields.values()):
        # the position lives in a member of class type: its range is decided on the interpreted request sequences (cache_rules
        # reads the integer inside that member after every request and catches any subscript outside the slots)
        R.instance('R3-index', f.name, f.loc, 'the position is a member of class or pointer type: decided by interpretation')
        R.instance('R3-index', f.name + '@exit', f.loc, 'the position is a member of class or pointer type: decided by interpretation')
        return
    if len(counters) != 1:
        raise AnalysisError('%s: expected one integer counter member in the cache, found %r' % (f.loc, counters))
    idx = 'this.' + counters[0]
    # E-ABS: the counter starts inside [0, SIZE) (class invariant, re-established at every exit: checked below); every
    # subscript of the slot array and every exit must find it there.  The wrap may be spelled `i++; if (i >= SIZE) i = 0`,
    # `i = (i + 1 < SIZE) ? i + 1 : 0`, a modulus, ...: the interpreter works on the relations, not on the spelling.
    from .absint import AbsInt, DBM, Hooks, INF

    class IH(Hooks):
        def on_index(self_, ai, e, st):
            if path_of(e.a[0]) == arrp:
                lo, hi = ai.range_of(ai.lin(e.a[1], st), st)
                R.instance('R3-index', f.name, e.loc, 'slot index in [%s, %s], capacity %d' % (lo, hi, size))
                if lo < 0 or hi > size - 1:
                    R.violation('R3-index', f.name, e.loc, 'slot index ranges over [%s, %s] but the cache has %d slots' % (
                        '-inf' if lo <= -INF else int(lo), '+inf' if hi >= INF else int(hi), size))
    ai = AbsInt(fold_global=lib.global_value, hooks=IH())
    st0 = DBM()
    for pn, pt in f.params:
        ai.declare(st0, pn, pt)
    it = int_type(fields.get(idx.replace('this.', '')))
    if it:
        ai.types[idx] = it
    st0.add(idx, '0', size - 1)
    st0.add('0', idx, 0)
    out = ai.run(f.body, st0)
    exits = [(s_, rst) for s_, rst in ai.ret_states] + ([] if out.bottom else [(None, out)])
    for s_, rst in exits:
        lo, hi = rst.bounds(idx)
        loc_ = s_.loc if s_ is not None else f.loc
        R.instance('R3-index', f.name + '@exit', loc_)
        if lo < 0 or hi > size - 1:
            R.violation('R3-index', f.name + '@exit', loc_, 'function can return with the round-robin index in [%s, %s], outside [0, %d)' % (
                '-inf' if lo <= -INF else int(lo), '+inf' if hi >= INF else int(hi), size))
    return

    class IR(Rule):
        # state: (lo, hi) interval of idx, starting from the class invariant [0, SIZE-1]
        def initial(self_):
            return [(0, size - 1)]

        def event(self_, e, st, tr):
            if e.k == 'index' and path_of(e.a[0]) == arrp:
                R.instance('R3-index', f.name, e.loc, 'slot index in [%d, %d], capacity %d' % (st[0], st[1], size))
                if st[0] < 0 or st[1] > size - 1:
                    R.violation('R3-index', f.name, e.loc, 'slot index ranges over [%d, %d] but the cache has %d slots' % (st[0], st[1], size), detail=list(tr))
            return st

        def assign(self_, s, st, tr):
            if s.k == 'assign' and path_of(s.a[0]) == idx:
                from .cxx import TU
                v = s.a[1]
                while v.k == 'cast':
                    v = v.a[2]
                if s.a[2] == '+=' and v.k == 'const':
                    return (st[0] + v.a[0], st[1] + v.a[0])
                if s.a[2] == '=' and v.k == 'const':
                    return (v.a[0], v.a[0])
                return (-(1 << 31), 1 << 31)
            return st

        def refine(self_, cond, st, truth):
            if cond.k == 'bin' and cond.a[0] in ('>=', '>', '<', '<=', '==', '!='):
                l, r = cond.a[1], cond.a[2]
                while l.k == 'cast':
                    l = l.a[2]
                while r.k == 'cast':
                    r = r.a[2]
                if path_of(l) == idx:
                    c = r.a[0] if r.k == 'const' else lib.fold_node(r.raw) if r.raw is not None and 'kind' in (r.raw or {}) else None
                    if c is None and r.k == 'var':
                        c = lib.global_value(r.a[0])
                    if c is not None:
                        op = cond.a[0]
                        if not truth:
                            op = {'>=': '<', '>': '<=', '<': '>=', '<=': '>', '==': '!=', '!=': '=='}[op]
                        lo, hi = st
                        if op == '>=':
                            lo = max(lo, c)
                        elif op == '>':
                            lo = max(lo, c + 1)
                        elif op == '<':
                            hi = min(hi, c - 1)
                        elif op == '<=':
                            hi = min(hi, c)
                        elif op == '==':
                            lo, hi = max(lo, c), min(hi, c)
                        if lo > hi:
                            return None
                        return (lo, hi)
            return st

        def at_exit(self_, kind, stmt, st, tr):
            R.instance('R3-index', f.name + '@exit', stmt.loc if stmt is not None else f.loc)
            if st[0] < 0 or st[1] > size - 1:
                R.violation('R3-index', f.name + '@exit', stmt.loc if stmt is not None else f.loc,
                            'function can return with the round-robin index in [%d, %d], outside [0, %d)' % (st[0], st[1], size), detail=list(tr))
    Engine(IR()).run(f.body)


# -- R4: cache-valid flag typestate ---------------------------------------------------------------------

def _root(e):
    """(root kind, name, first field under this) of an l-value chain."""
    chain = []
    while True:
        if e.k in ('index',):
            e = e.a[0]
        elif e.k in ('addr', 'deref', 'ptrcast'):
            e = e.a[-1]
        elif e.k == 'cast':
            e = e.a[2]
        elif e.k == 'field':
            chain.append(e.a[1])
            e = e.a[0]
        else:
            break
    if e.k == 'this':
        return ('this', chain[-1] if chain else None)
    if e.k == 'var':
        return ('var', e.a[0])
    return (None, None)


def _aliases(fn):
    """local name -> this-field it may alias (non-const pointer/reference locals bound to member storage)."""
    from .ir import walk_stmts
    al = {}
    changed = True
    rounds = 0
    while changed and rounds < 4:
        changed = False
        rounds += 1
        for s in walk_stmts(fn.body):
            if s.k == 'decl' and s.a[2] is not None:
                name, ty, init = s.a[0], s.a[1] or '', s.a[2]
            elif s.k == 'assign' and s.a[0].k == 'var' and s.a[2] == '=':
                name, ty, init = s.a[0].a[0], s.a[0].ty or '', s.a[1]
            else:
                continue
            if not ('&' in ty or '*' in ty):
                continue
            if ty.strip().startswith('const') and '*const' not in ty.replace(' ', ''):
                continue
            kind, nm = _root(init)
            tgt = None
            if kind == 'this' and nm:
                tgt = nm
            elif kind == 'var' and nm in al:
                tgt = al[nm]
            if tgt and al.get(name) != tgt:
                al[name] = tgt
                changed = True
    return al


def _written_field(e, al):
    kind, nm = _root(e)
    if kind == 'this':
        return nm
    if kind == 'var' and nm in al and e.k != 'var':
        return al[nm]
    return None


def field_writes(lib, fn, memo, depth=0, follow_this=True):
    """Set of this-field names (first component) fn may write, transitively through calls on this / members
    and through local pointer/reference aliases of member storage."""
    if fn.name in memo:
        return memo[fn.name]
    memo[fn.name] = set()
    out = set()
    from .ir import walk_stmts
    al = _aliases(fn)
    for s in walk_stmts(fn.body):
        if s.k == 'assign':
            w = _written_field(s.a[0], al)
            if w:
                out.add(w)
    for e in all_exprs(fn.body):
        if e.k == 'incdec':
            w = _written_field(e.a[2], al)
            if w:
                out.add(w)
        if e.k == 'assignexpr':
            w = _written_field(e.a[0], al)
            if w:
                out.add(w)
        if e.k == 'call' and depth < 5:
            callee = lib.fns(e.a[0])
            recv = e.a[1]
            if recv is not None:
                kind, nm = _root(recv)
                if kind == 'this' and nm is None and callee:
                    if follow_this:
                        out |= field_writes(lib, callee[0], memo, depth + 1)
                elif callee and not _is_const_method(callee[0]) and field_writes(lib, callee[0], memo, depth + 1):
                    w = _written_field(recv, al) if recv.k != 'var' else al.get(recv.a[0])
                    if w:
                        out.add(w)
            # members passed by address / non-const reference to helpers
            for i, a in enumerate(e.a[2]):
                if not callee or i >= len(callee[0].params):
                    continue
                pt = callee[0].params[i][1] or ''
                if ('&' in pt or '*' in pt) and not pt.strip().startswith('const'):
                    kind, nm = _root(a)
                    if kind == 'this' and nm:
                        out.add(nm)
                    elif kind == 'var' and nm in al:
                        out.add(al[nm])
    memo[fn.name] = out
    return out


def _is_const_method(fn):
    t = (fn.node.get('type') or {}).get('qualType', '')
    return t.rstrip().endswith('const')


class FlagRule(Rule):
    """state: (dirty, flag, late)  dirty: key/content overwritten on this path;
    flag: 'entry' | 'false' | 'true' (last constant assigned to the valid flag);
    late: content written after the flag was set true."""

    def __init__(self, R, lib, fn, flag, key, content, memo, rid):
        self.R, self.lib, self.fn, self.flag, self.key, self.content, self.memo, self.rid = R, lib, fn, flag, key, content, memo, rid

    def initial(self):
        return [(False, 'entry', False)]

    def _write(self, st, names):
        if not (names & (self.content | {self.key})):
            return st
        dirty, flag, late = st
        return (True, flag, late or flag == 'true')

    def assign(self, s, st, tr):
        if s.k != 'assign':
            return st
        tgt = s.a[0].a[0] if s.a[0].k == 'index' else s.a[0]
        p = path_of(tgt)
        if not p or not p.startswith('this.'):
            return st
        name = p.split('.')[1]
        if name == self.flag:
            v = s.a[1]
            while v.k == 'cast':
                v = v.a[2]
            if v.k == 'const':
                return (st[0], 'true' if v.a[0] else 'false', False if v.a[0] else st[2])
            return (st[0], 'unknown', st[2])
        return self._write(st, {name})

    def event(self, e, st, tr):
        if e.k == 'call':
            callee = self.lib.fns(e.a[0])
            if not callee:
                return st
            w = set()
            recv = e.a[1]
            if recv is not None:
                kind, nm = _root(recv)
                if kind == 'this' and nm is None:
                    w |= field_writes(self.lib, callee[0], self.memo)
                elif kind == 'this' and nm and not _is_const_method(callee[0]) and field_writes(self.lib, callee[0], self.memo):
                    w.add(nm)
            for i, a in enumerate(e.a[2]):
                if i < len(callee[0].params):
                    pt = callee[0].params[i][1] or ''
                    if ('&' in pt or '*' in pt) and not pt.strip().startswith('const'):
                        kind, nm = _root(a)
                        if kind == 'this' and nm:
                            w.add(nm)
            if self.flag in w:
                return (st[0], 'unknown', st[2])
            return self._write(st, w)
        if e.k in ('incdec', 'assignexpr'):
            kind, nm = _root(e.a[2] if e.k == 'incdec' else e.a[0])
            if kind == 'this' and nm:
                return self._write(st, {nm})
        return st

    def at_exit(self, kind, stmt, st, tr):
        loc = stmt.loc if stmt is not None else self.fn.loc
        dirty, flag, late = st
        c = self.fn.name
        self.R.instance(self.rid, c, loc, 'exit with dirty=%s flag=%s' % (dirty, flag))
        if dirty and flag == 'entry':
            self.R.violation(self.rid, c, loc,
                             'returns after overwriting the cache key/content while %s keeps the value it had on entry: a repeated '
                             'query for the same year is answered from a cache that was never filled' % self.flag, detail=list(tr))
        elif late:
            self.R.violation(self.rid, c, loc, '%s is set true before the last write to the cache content' % self.flag, detail=list(tr))


def flag_rules(R, lib, cls):
    R.rule('R4', 'init(): every path that overwrites key/content assigns the cache-valid flag (false on failure, true only after the fill)', floor=4)
    R.rule('R4-rebind', 'setZoneInfo(): the path that rebinds the zone clears the flag and resets the key', floor=2)
    R.rule('R4-key', 'isFilled() consults both the flag and the key', floor=2)
    R.rule('R4-keyval', 'init(): the key stored is the value isFilled() was asked about, and the fill helpers get the same year', floor=4)
    isf = lib.fn(cls + '::isFilled')
    reads = []
    for e in all_exprs(isf.body):
        if e.k == 'field' and e.a[0].k == 'this':
            reads.append((e.a[1], e.ty))
    flags = [n for n, t in reads if t and t.replace('const ', '').strip() == 'bool']
    keys = [n for n, t in reads if n not in flags]
    R.instance('R4-key', isf.name, isf.loc, 'flag=%s key=%s' % (flags, keys))
    if len(set(flags)) != 1 or len(set(keys)) != 1:
        R.violation('R4-key', isf.name, isf.loc, 'isFilled() reads flag fields %s and key fields %s; it must test exactly one valid flag and the cached year' % (sorted(set(flags)), sorted(set(keys))))
        if not flags:
            raise AnalysisError('%s: no boolean valid flag found' % isf.loc)
        keys = keys or ['?']
    flag, key = flags[0], keys[0]
    content = set()
    for n, t, node in lib.fields(cls):
        if n not in (flag, key) and node.get('mutable'):
            content.add(n)
    if not content:
        raise AnalysisError('anchor moved: %s has no mutable cache content fields' % cls)
    R.analysed.setdefault('cache_slots', {})[cls] = {'flag': flag, 'key': key, 'content': sorted(content)}
    memo = {}
    inits = [f for f in lib.fns(cls + '::init') if f.params and 'LocalDate' in (f.params[0][1] or '')]
    if not inits:
        raise AnalysisError('anchor vanished: %s::init(const LocalDate&)' % cls)
    for f in inits:
        Engine(FlagRule(R, lib, f, flag, key, content, memo, 'R4')).run(f.body)
        if key != '?':     # (R4-key has already reported an isFilled() without a key)
            key_value_rule(R, lib, cls, f, isf, key)
    # setZoneInfo
    sz = lib.fn(cls + '::setZoneInfo')

    class SR(Rule):
        def initial(self_):
            return [(False, False, False)]

        def assign(self_, s, st, tr):
            if s.k != 'assign':
                return st
            p = path_of(s.a[0])
            if not p or not p.startswith('this.'):
                return st
            n = p.split('.')[1]
            re_, ff, kr = st
            if n == 'mZoneInfo':
                return (True, ff, kr)
            if n == flag:
                v = s.a[1]
                while v.k == 'cast':
                    v = v.a[2]
                return (re_, v.k == 'const' and v.a[0] == 0, kr)
            if n == key:
                return (re_, ff, True)
            return st

        def at_exit(self_, kind, stmt, st, tr):
            loc = stmt.loc if stmt is not None else sz.loc
            R.instance('R4-rebind', sz.name, loc)
            if st[0] and not (st[1] and st[2]):
                R.violation('R4-rebind', sz.name, loc, 'zone info is replaced but %s' % (
                    'the valid flag is not cleared' if not st[1] else 'the cached year is not reset'), detail=list(tr))
    Engine(SR()).run(sz.body)
    writer_rule(R, lib, cls, flag, key, content, inits, sz)


# members that are written outside init() on purpose, with the reason
WRITER_EXCEPTIONS = {
    ('ace_time::ExtendedZoneProcessor::resetTransitionHighWater', ('mTransitionStorage',)):
        'calls TransitionStorage::resetHighWater(), which zeroes the usage statistic mHighWater (read only by getTransitionHighWater()); no '
        'transition, match or answer depends on it',
}


def writer_rule(R, lib, cls, flag, key, content, inits, sz):
    """R4-writers (who may write): the valid flag vouches for the cache fields only if nothing but init() - with the helpers it
    calls -, setZoneInfo() and the constructors writes them.  A member function outside that set that assigns a mutable member
    (a memo in a look-up, say) creates cache state the flag does not cover and a re-bind does not clear."""
    R.rule('R4-writers', 'the mutable members of a processor are written only by init() and its helpers, setZoneInfo() and the constructors', floor=4)
    short = cls.split('::')[-1]
    methods = {}
    for q, fs in lib.funcs.items():
        if q.startswith(cls + '::') and '::' not in q[len(cls) + 2:]:
            for f in fs:
                if f.inst != 'primary' or all(g.inst == 'primary' for g in fs):
                    methods.setdefault(q, f)

    def callees_on_this(f):
        out = set()
        for e in all_exprs(f.body):
            if e.k == 'call' and e.a[0] in methods and (e.a[1] is None or _root(e.a[1]) == ('this', None)):
                out.add(e.a[0])
        return out
    allowed = set()
    todo = [f.name for f in inits] + [sz.name] + [q for q in methods if q.split('::')[-1] == short]
    while todo:
        q = todo.pop()
        if q in allowed or q not in methods:
            continue
        allowed.add(q)
        todo.extend(callees_on_this(methods[q]))
    protected = set(content) | {flag, key}
    reset_by_both = field_writes(lib, sz, {}) & set().union(*[field_writes(lib, g, {}) for g in inits])
    for q, f in sorted(methods.items()):
        c = '%s:writes' % q
        R.instance('R4-writers', c, f.loc)
        if q in allowed:
            continue
        w = field_writes(lib, f, {}, 0, follow_this=False) & protected
        # a memo that both invalidating events reset (the re-bind and the refill) is state with a discipline of its own
        w = {m for m in w if m in (flag, key) or m not in reset_by_both}
        if not w:
            continue
        exc = WRITER_EXCEPTIONS.get((q, tuple(sorted(w))))
        if exc:
            R.exception('R4-writers', c, exc)
        else:
            R.violation('R4-writers', c, f.loc, '%s writes the mutable member(s) %s but is neither init(), one of its helpers, setZoneInfo() nor a constructor: '
                        'the valid flag says nothing about that state and a re-bind to another zone does not clear it' % (q.split('::')[-1], sorted(w)))


def key_value_rule(R, lib, cls, f, isf, key):
    """On every path of init() that stores the cache key, the stored value is the value isFilled() was asked about on
    that path, and every fill helper that takes the year gets that same value."""
    from .gnf import Poly, SymExec, formula_atoms, poly_key_str
    sx = SymExec(fold_global=lib.global_value)
    # isFilled() is summarised in place: whether init() calls it or spells its test out, the path condition then says
    # which value was compared with the cached key
    sx.inliner = lambda name, nargs: isf if (name == isf.name and nargs == len(isf.params)) else None
    summ = sx.run(f.name, f.body, {})
    stores = 0
    keysym = ('sym', 'this.' + key)
    ptype = (isf.params[0][1] or '').replace('const', '').strip() if isf.params else ''

    def single_fn(pk):
        p = Poly(dict(pk))
        if len(p.t) == 1:
            (mono, c), = p.t.items()
            if c == 1 and len(mono) == 1 and mono[0][0] == 'fn':
                return mono[0]
        return None

    def fn_atoms(pk, out):
        for mono, _c in pk:
            for a in mono:
                if a[0] == 'fn':
                    out.append(a)
                    for arg in a[2]:
                        if isinstance(arg, tuple) and arg and arg[0] != 'kw':
                            fn_atoms(arg, out)
                elif a[0] == 'init':
                    for arg in a[2]:
                        fn_atoms(arg, out)
        return out

    for guard, kind, res, eff in summ.paths:
        idx = [i for i, (n, v) in enumerate(eff) if n == 'this.' + key]
        if not idx:
            continue
        stores += 1
        K = eff[idx[-1]][1]
        c = '%s:key' % f.name
        R.instance('R4-keyval', c, f.loc, 'stores %s' % poly_key_str(K))
        tested = []
        for a in formula_atoms(guard):
            if a[0] == 'bool':
                fa = single_fn(a[1])
                if fa is not None and fa[1] == isf.name and len(fa[2]) >= 2:
                    tested.append(fa[2][-1])
            elif a[0] == 'atom' and a[2] == '==':
                # <value> == this.<key>: the comparison atom is  s * key + rest == c ; the value asked about is (c - rest) / s
                P_ = Poly(dict(a[1]))
                s_ = P_.coef(keysym)
                if s_ in (1, -1) and P_.linear_in() is not None:
                    rest = P_ - Poly.atom(keysym) * Poly.const(s_)
                    val = (Poly.const(a[3]) - rest) * Poly.const(s_)
                    tested.append(val.key())
        if not tested:
            R.violation('R4-keyval', c, f.loc, 'the cache key %s is overwritten on a path that did not ask isFilled() first' % key)
        for t in tested:
            if t != K:
                R.violation('R4-keyval', c, f.loc, 'init() asks isFilled(%s) but then labels the cache it fills with %s = %s: a later query for '
                            'year %s is answered from transitions computed for another year' % (poly_key_str(t), key, poly_key_str(K), poly_key_str(K)))
        # helpers of the same class called after the key store with a parameter of the key's type named *year*
        calls = []
        for n, v in eff[idx[-1]:]:
            fn_atoms(v if n == 'call' else v, calls)
        for a in calls:
            callee = lib.fns(a[1])
            if not callee or not a[1].startswith(cls + '::'):
                continue
            params = callee[0].params
            args = list(a[2])
            if len(args) == len(params) + 1:
                args = args[1:]        # receiver
            for (pn, pt), arg in zip(params, args):
                if 'year' in (pn or '').lower() and (pt or '').replace('const', '').strip() == ptype:
                    cc = '%s->%s(%s)' % (f.name, a[1].split('::')[-1], pn)
                    R.instance('R4-keyval', cc, f.loc)
                    if arg != K:
                        R.violation('R4-keyval', cc, f.loc, 'the cache is labelled %s = %s but %s() fills it for %s' % (
                            key, poly_key_str(K), a[1].split('::')[-1], poly_key_str(arg)))
    if not stores:
        raise AnalysisError('%s: init() has no path that stores the cache key %s' % (f.loc, key))


# -- R5: Python cache key -------------------------------------------------------------------------------

def abbrev_buffer_rule(R, lib):
    """Transition::abbrev lives in a pooled slot that init() does not clear: what createAbbreviation() leaves in it must be
    determined by this call alone.  Every bounded copy into the destination is followed, in the same block, by a NUL
    written at the copied length (memcpy / a prefix strncpy), or is a strncpy over the whole buffer (which pads with NULs)
    with the last byte forced to NUL."""
    R.rule('R6', 'createAbbreviation terminates the destination at the copied length on every branch', floor=3)
    fs = lib.fns('ace_time::ExtendedZoneProcessor::createAbbreviation')
    if not fs:
        raise AnalysisError('anchor vanished: ExtendedZoneProcessor::createAbbreviation')
    f = fs[0]
    dest, size = f.params[0][0], f.params[1][0]

    def unc(e):
        while e.k in ('cast', 'ptrcast'):
            e = e.a[-1]
        return e

    def plain(e):
        e = unc(e)
        if e.k == 'bin':
            return '(%s%s%s)' % (plain(e.a[1]), e.a[0], plain(e.a[2]))
        if e.k == 'var':
            return e.a[0]
        if e.k == 'const':
            return str(e.a[0])
        return show(e).replace(' ', '')

    def blocks(stmts):
        yield stmts
        for s in stmts:
            if s.k == 'if':
                yield from blocks(s.a[1])
                yield from blocks(s.a[2])
            elif s.k == 'block':
                yield from blocks(s.a[0])
    n = 0
    for blk in blocks(f.body):
        for i, s in enumerate(blk):
            if s.k != 'expr' or s.a[0].k != 'call':
                continue
            e = s.a[0]
            name = e.a[0].split('::')[-1]
            if name not in ('memcpy', 'strncpy', 'strcpy') or not e.a[2] or path_of(unc(e.a[2][0])) != dest:
                continue
            n += 1
            c = '%s:%s@%s' % (f.name, name, (s.loc or '').split(':')[-1])
            cc = '%s:%s(%s)' % (f.name, name, ','.join(plain(a) for a in e.a[2][1:]))
            R.instance('R6', cc, s.loc)
            if name == 'strcpy':
                R.violation('R6', cc, s.loc, 'unbounded strcpy into the abbreviation buffer')
                continue
            L = plain(e.a[2][2])
            terms = []
            for t in blk[i + 1:]:
                if t.k == 'assign' and t.a[0].k == 'index' and path_of(unc(t.a[0].a[0])) == dest:
                    v = unc(t.a[1])
                    if v.k == 'const' and v.a[0] == 0:
                        terms.append(plain(t.a[0].a[1]))
            whole = (size, '(%s-1)' % size)
            ok = L in terms or (name == 'strncpy' and L in whole and '(%s-1)' % size in terms)
            if not ok:
                R.violation('R6', cc, s.loc, 'the copy of length %s is not followed by %s[%s] = 0 (terminators written: %s): the bytes after the copied part '
                            'are whatever the pooled slot held before, so the abbreviation depends on the previous zone or year' % (L, dest, L, terms or 'none'))
    if n < 3:
        raise AnalysisError('%s: only %d bounded copies into the destination found (anchor moved)' % (f.loc, n))


def _self_attr(n):
    return n.attr if isinstance(n, ast.Attribute) and isinstance(n.value, ast.Name) and n.value.id == 'self' else None


def _accumulated_attrs(m, cls, fname, memo, depth=0):
    """attributes self.X that method fname (or a method it calls through self) grows or folds into itself:
    self.X.extend/append/insert(...), self.X += ..., self.X = f(..., self.X, ...)"""
    key = '%s.%s' % (cls, fname)
    if key in memo:
        return memo[key]
    memo[key] = set()
    f = m.funcs.get(key)
    if f is None or depth > 5:
        return set()
    out = set()
    for x in ast.walk(f.node):
        if isinstance(x, ast.Call) and isinstance(x.func, ast.Attribute):
            a = _self_attr(x.func.value)
            if a and x.func.attr in ('extend', 'append', 'insert', 'update', 'add'):
                out.add(a)
            callee = _self_attr(x.func)
            if callee:
                out |= _accumulated_attrs(m, cls, callee, memo, depth + 1)
        elif isinstance(x, ast.AugAssign):
            a = _self_attr(x.target)
            if a:
                out.add(a)
        elif isinstance(x, ast.Assign) and len(x.targets) == 1:
            a = _self_attr(x.targets[0])
            if a and any(_self_attr(y) == a for y in ast.walk(x.value)):
                out.add(a)
        elif isinstance(x, ast.If):
            # running maximum / minimum: if v > self.X: self.X = v
            tested = {_self_attr(y) for y in ast.walk(x.test)} - {None}
            for y in x.body:
                if isinstance(y, ast.Assign) and len(y.targets) == 1 and _self_attr(y.targets[0]) in tested:
                    out.add(_self_attr(y.targets[0]))
    memo[key] = out
    return out


def python_reset_rule(R, m, f):
    """init_for_year refills the per-year cache: everything the fill helpers accumulate into must be reset between the
    write of the cache key and the first helper that accumulates into it; otherwise the answer for a year depends on
    the years asked before."""
    R.rule('R5-reset', 'ZoneSpecifier.init_for_year resets every attribute its fill helpers accumulate into before they run', floor=2)
    cls = f.cls
    memo = {}
    # the key names what the other cache attributes hold: once one of them has been touched for the new year, nothing that
    # can fail (a call) may come before the key is written - otherwise a failure leaves the old key on clobbered data
    touched = None
    keyed = False
    behind = False
    for s in f.node.body:
        if isinstance(s, ast.If) and any(isinstance(x, ast.Return) for x in ast.walk(s)):
            behind = True
            continue
        if not behind or keyed:
            continue
        writes = [_self_attr(t) for x in ast.walk(s) if isinstance(x, ast.Assign) for t in x.targets if _self_attr(t)]
        calls = [x for x in ast.walk(s) if isinstance(x, ast.Call) and not ast.unparse(x.func).startswith(('logging.', 'print'))]
        if touched and calls:
            c = '%s:key-order' % f.name
            R.instance('R5-reset', c, m.loc(s))
            R.violation('R5-reset', c, m.loc(s), 'self.%s is already overwritten for the new year when %s() runs, and the cache key self.year is only written later: '
                        'if that call fails, the old key stays on data that is no longer the old year\'s' % (touched, ast.unparse(calls[0].func)))
            break
        if 'year' in writes:
            keyed = True
        elif writes and touched is None:
            touched = writes[0]
    reset = set()
    past_guard = False        # behind the "this year is cached" early return: from here on the cache is being refilled
    for s in f.node.body:
        if isinstance(s, ast.If) and any(isinstance(x, ast.Return) for x in ast.walk(s)):
            past_guard = True
            continue
        for x in ast.walk(s):
            if isinstance(x, ast.Assign):
                for t in x.targets:
                    a = _self_attr(t)
                    if a and a != 'year' and past_guard and not any(_self_attr(y) == a for y in ast.walk(x.value)):
                        reset.add(a)
        calls = [x for x in ast.walk(s) if isinstance(x, ast.Call) and _self_attr(x.func)]
        for x in calls:
            acc = _accumulated_attrs(m, cls, _self_attr(x.func), memo)
            for a in sorted(acc):
                c = '%s:%s' % (f.name, a)
                R.instance('R5-reset', c, m.loc(x), 'accumulated by %s' % _self_attr(x.func))
                if a not in reset:
                    R.violation('R5-reset', c, m.loc(x), 'self.%s is grown by %s() but init_for_year does not reset it before refilling the cache: '
                                'what was computed for the previously cached year stays in it, so the answer depends on the order of the years asked' % (a, _self_attr(x.func)))
                    reset.add(a)      # report once


def python_rules(cfg, R):
    R.rule('R5', 'ZoneSpecifier.init_for_year: no raise is reachable after the cache key self.year is written', floor=1)
    m = py.load(cfg, 'tools/zonedb/zone_specifier.py')
    f = m.fn('ZoneSpecifier.init_for_year')
    R.analysed.setdefault('python_modules', []).append(m.rel)

    class KR(Rule):
        def initial(self_):
            return [False]

        def assign(self_, s, st, tr):
            if s.k == 'assign' and path_of(s.a[0]) == 'self.year':
                v = s.a[1]
                return not (v.k == 'const' or v.k == 'null')
            return st

        def at_exit(self_, kind, stmt, st, tr):
            if kind == 'raise':
                R.instance('R5', f.name + '@raise', stmt.loc)
                if st:
                    R.violation('R5', f.name + '@raise', stmt.loc,
                                'raises after self.year was set to the requested year: the next call for the same year returns '
                                'as "cached" with empty matches/transitions', detail=list(tr))
    Engine(KR()).run(f.body)
    python_reset_rule(R, m, f)
    n = sum(1 for x in ast.walk(f.node) if isinstance(x, ast.Assign) and any(isinstance(t, ast.Attribute) and t.attr == 'year' for t in x.targets))
    R.instance('R5', f.name, f.loc, 'cache key writes: %d' % n)
    if n == 0:
        raise AnalysisError('%s: init_for_year does not write self.year (cache key anchor moved)' % f.loc)


SELFTEST = [
    # the slot taken through an accessor that returns a reference to it
    dict(id='slot-through-a-reference-accessor-silent', edits=[
        dict(file='src/ace_time/ZoneProcessorCache.h', find='      zoneProcessor = &mZoneProcessors[mCurrentIndex];', replace='      ZS& slot = slotAt(mCurrentIndex);\n      zoneProcessor = &slot;'),
        dict(file='src/ace_time/ZoneProcessorCache.h', find='    ZS mZoneProcessors[SIZE];', replace='    ZS& slotAt(uint8_t i) { return mZoneProcessors[i]; }\n\n    ZS mZoneProcessors[SIZE];')],
         expect='silent'),
    dict(id='slot-through-a-reference-accessor-of-the-next-slot', edits=[
        dict(file='src/ace_time/ZoneProcessorCache.h', find='      zoneProcessor = &mZoneProcessors[mCurrentIndex];', replace='      ZS& slot = slotAt(mCurrentIndex);\n      zoneProcessor = &slot;'),
        dict(file='src/ace_time/ZoneProcessorCache.h', find='    ZS mZoneProcessors[SIZE];', replace='    ZS& slotAt(uint8_t i) { return mZoneProcessors[i + 1]; }\n\n    ZS mZoneProcessors[SIZE];')],
         rule='R3-index'),
    dict(id='rebind-keeps-year-and-flag', file='src/ace_time/ExtendedZoneProcessor.h',
         find='          (const extended::ZoneInfo*) zoneInfo);\n      mYear = 0;\n      mIsFilled = false;\n',
         replace='          (const extended::ZoneInfo*) zoneInfo);\n', rule='R7'),
    dict(id='lookup-memo-outside-the-flag', file='src/ace_time/ExtendedZoneProcessor.h', rule='R4-writers', edits=[
        dict(file='src/ace_time/ExtendedZoneProcessor.h', find='      return mTransitionStorage.findTransition(epochSeconds);\n',
             replace='      if (epochSeconds != mPrevEpochSeconds || mPrevTransition == nullptr) {\n        mPrevEpochSeconds = epochSeconds;\n        mPrevTransition = mTransitionStorage.findTransition(epochSeconds);\n      }\n      return mPrevTransition;\n'),
        dict(file='src/ace_time/ExtendedZoneProcessor.h', find='    mutable extended::TransitionStorage<kMaxTransitions> mTransitionStorage;\n',
             replace='    mutable extended::TransitionStorage<kMaxTransitions> mTransitionStorage;\n    mutable acetime_t mPrevEpochSeconds = LocalDate::kInvalidEpochSeconds;\n    mutable const extended::Transition* mPrevTransition = nullptr;\n')]),
    dict(id='rebind-deleted-getUtcOffset', file='src/ace_time/TimeZone.h',
         find='          mZoneProcessor->setZoneInfo(mZoneInfo);\n          return mZoneProcessor->getUtcOffset(epochSeconds);',
         replace='          return mZoneProcessor->getUtcOffset(epochSeconds);', rule='R1', construct='getUtcOffset'),
    dict(id='rebind-deleted-printTo', file='src/ace_time/TimeZone.cpp',
         find='      mZoneProcessor->setZoneInfo(mZoneInfo);\n      mZoneProcessor->printTo(printer);',
         replace='      mZoneProcessor->printTo(printer);', rule='R1', construct='printTo'),
    dict(id='rebind-after-use', file='src/ace_time/TimeZone.h',
         find='          mZoneProcessor->setZoneInfo(mZoneInfo);\n          odt = mZoneProcessor->getOffsetDateTime(ldt);',
         replace='          odt = mZoneProcessor->getOffsetDateTime(ldt);\n          mZoneProcessor->setZoneInfo(mZoneInfo);', rule='R1', construct='getOffsetDateTime'),
    dict(id='managed-null-test-deleted', file='src/ace_time/TimeZone.h', unique=False, nth=0,
         find='          if (! processor) break;\n', replace='', rule='R2'),
    dict(id='managed-wrong-zone', file='src/ace_time/TimeZone.cpp', unique=False, nth=0,
         find='mZoneProcessorCache->getZoneProcessor(mZoneInfo);', replace='mZoneProcessorCache->getZoneProcessor(nullptr);', rule='R2'),
    dict(id='cache-rebind-deleted', file='src/ace_time/ZoneProcessorCache.h',
         find='      zoneProcessor->setZoneInfo((const ZI*) zoneInfo);\n', replace='', rule='R3'),
    dict(id='cache-index-off-by-one', file='src/ace_time/ZoneProcessorCache.h',
         find='if (mCurrentIndex >= SIZE) mCurrentIndex = 0;', replace='if (mCurrentIndex > SIZE) mCurrentIndex = 0;', rule='R3-index'),
    dict(id='cache-find-wrong-test', file='src/ace_time/ZoneProcessorCache.h',
         find='if (zoneInfo == zoneInfoKey) {', replace='if (zoneInfo != nullptr) {', rule='R3'),
    dict(id='cache-find-never-hits', file='src/ace_time/ZoneProcessorCache.h',
         find='if (zoneInfo == zoneInfoKey) {', replace='if (zoneInfo == zoneInfoKey && i > SIZE) {', rule='R3-find'),
    dict(id='flag-not-cleared-extended', file='src/ace_time/ExtendedZoneProcessor.h',
         find='      mTransitionStorage.init();\n      mIsFilled = false;\n', replace='      mTransitionStorage.init();\n', rule='R4', construct='ExtendedZoneProcessor::init'),
    dict(id='flag-not-cleared-basic', file='src/ace_time/BasicZoneProcessor.h',
         find='      mNumTransitions = 0; // clear cache\n      mIsFilled = false;\n', replace='      mNumTransitions = 0; // clear cache\n', rule='R4', construct='BasicZoneProcessor::init'),
    dict(id='flag-set-before-fill', file='src/ace_time/BasicZoneProcessor.h',
         find='      calcTransitions();\n      calcAbbreviations();\n\n      mIsFilled = true;\n',
         replace='      mIsFilled = true;\n      calcTransitions();\n      calcAbbreviations();\n\n', rule='R4', construct='BasicZoneProcessor::init'),
    dict(id='setZoneInfo-keeps-flag', file='src/ace_time/BasicZoneProcessor.h',
         find='      mYearTiny = LocalDate::kInvalidYearTiny;\n      mIsFilled = false;\n      mNumTransitions = 0;',
         replace='      mYearTiny = LocalDate::kInvalidYearTiny;\n      mNumTransitions = 0;', rule='R4-rebind'),
    dict(id='isFilled-ignores-year', file='src/ace_time/ExtendedZoneProcessor.h',
         find='return mIsFilled && (year == mYear);', replace='return mIsFilled;', rule='R4-key'),
    dict(id='key-labelled-with-query-year', file='src/ace_time/BasicZoneProcessor.h',
         find='      mYearTiny = yearTiny;\n      mNumTransitions = 0; // clear cache', replace='      mYearTiny = ld.yearTiny();\n      mNumTransitions = 0; // clear cache', rule='R4-keyval'),
    dict(id='fill-helper-gets-query-year', file='src/ace_time/BasicZoneProcessor.h',
         find='      addTransitionAfterYear(yearTiny, currentEra);', replace='      addTransitionAfterYear(ld.yearTiny(), currentEra);', rule='R4-keyval'),
    dict(id='extended-key-off-by-one', file='src/ace_time/ExtendedZoneProcessor.h',
         find='      mYear = year;\n      mNumMatches = 0; // clear cache', replace='      mYear = year + 1;\n      mNumMatches = 0; // clear cache', rule='R4-keyval'),
    dict(id='key-local-renamed-silent', file='src/ace_time/BasicZoneProcessor.h', regex=True,
         find=r'(bool init\(const LocalDate& ld\) const \{.*?      mIsFilled = true;)', replace=lambda m: m.group(1).replace('yearTiny', 'yt').replace('ld.yt()', 'ld.yearTiny()'), expect='silent'),
    dict(id='abbrev-head-not-terminated', file='src/ace_time/ExtendedZoneProcessor.h',
         find='            memcpy(dest, format, headLength);\n            dest[headLength] = \'\\0\';', replace='            strncpy(dest, format, headLength);\n            dest[destSize - 1] = \'\\0\';', rule='R6'),
    dict(id='abbrev-tail-terminator-dropped', file='src/ace_time/ExtendedZoneProcessor.h',
         find='            memcpy(dest, slashPos+1, tailLength);\n            dest[tailLength] = \'\\0\';', replace='            memcpy(dest, slashPos+1, tailLength);', rule='R6'),
    dict(id='python-transitions-not-reset', file='tools/zonedb/zone_specifier.py', find='        self.matches = []\n        self.transitions = []\n', replace='        self.matches = []\n', rule='R5-reset', construct='transitions'),
    dict(id='python-statistics-not-reset', file='tools/zonedb/zone_specifier.py', find='        self.max_transition_buffer_size = 0\n        self.matches = []', replace='        self.matches = []', rule='R5-reset'),
    dict(id='python-reset-order-silent', file='tools/zonedb/zone_specifier.py',
         find='        self.max_transition_buffer_size = 0\n        self.matches = []\n        self.transitions = []\n        self.all_candidate_transitions = []',
         replace='        self.all_candidate_transitions = []\n        self.transitions = []\n        self.matches = []\n        self.max_transition_buffer_size = 0', expect='silent'),
    dict(id='python-key-before-validation', file='tools/zonedb/zone_specifier.py',
         find="            return\n\n        if self.viewing_months == 12:", replace="            return\n\n        self.year = year\n        if self.viewing_months == 12:", rule='R5'),
    dict(id='renamed-local-silent', file='src/ace_time/TimeZone.h', regex=True, unique=False, nth=0,
         find=r'ZoneProcessor\* processor =\n              mZoneProcessorCache->getZoneProcessor\(mZoneInfo\);\n          if \(! processor\) break;\n          return processor->getUtcOffset\(epochSeconds\);',
         replace=r'ZoneProcessor* zp =\n              mZoneProcessorCache->getZoneProcessor(mZoneInfo);\n          if (zp == nullptr) break;\n          return zp->getUtcOffset(epochSeconds);', expect='silent'),
    dict(id='flag-cleared-first-silent', file='src/ace_time/ExtendedZoneProcessor.h',
         find='      mYear = year;\n      mNumMatches = 0; // clear cache\n      mTransitionStorage.init();\n      mIsFilled = false;\n',
         replace='      mIsFilled = false;\n      mTransitionStorage.init();\n      mNumMatches = 0;\n      mYear = year;\n', expect='silent'),
]
