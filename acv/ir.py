"""Small structured IR shared by the C++ (clang JSON) and Python (ast) front ends.

Expressions  E(kind, *args):
  const v | str s | var name | field base name | index base idx | un op e | bin op l r
  cast width signed e | call qualname recv args | cond c a b | init type args
  addr e | deref e | this | null | opaque text
Statements   S(kind, *args):
  assign target value op | expr e | decl name type init | if cond then else
  switch e arms(list of (labels, block))  -- fall-through is explicit: a block that
        does not end in break/return/continue falls into the next arm
  loop kind init cond step body | break | continue | return e | raise e
  try body handlers final | block stmts | pass
Every node carries .loc = 'file:line' and, for C++, .ty (desugared type string).
"""


class E:
    __slots__ = ('k', 'a', 'loc', 'ty', 'raw')

    def __init__(self, k, *a, loc=None, ty=None, raw=None):
        self.k = k
        self.a = a
        self.loc = loc
        self.ty = ty
        self.raw = raw

    def __repr__(self):
        return show(self)

    def key(self):
        """Structural identity (ignores loc/type)."""
        return (self.k,) + tuple(_key(x) for x in self.a)

    def __eq__(self, o):
        return isinstance(o, E) and self.key() == o.key()

    def __hash__(self):
        return hash(self.key())


def _key(x):
    if isinstance(x, E):
        return x.key()
    if isinstance(x, (list, tuple)):
        return tuple(_key(y) for y in x)
    return x


class S:
    __slots__ = ('k', 'a', 'loc', 'raw')

    def __init__(self, k, *a, loc=None, raw=None):
        self.k = k
        self.a = a
        self.loc = loc
        self.raw = raw

    def __repr__(self):
        return 'S(%s %s)' % (self.k, ' '.join(repr(x) for x in self.a))


def _cond_parts(e):
    """e is `c ? x : y`, possibly under conversions -> (c, x, y) with the conversions pushed into the two arms"""
    wraps = []
    while e is not None and e.k == 'cast':
        wraps.append(e)
        e = e.a[2]
    if e is None or e.k != 'cond':
        return None
    x, y = e.a[1], e.a[2]
    if e.a[0] == x and y.k == 'const':
        return None        # `x if x else 0`: a default for a missing value, not a branch (the canonicaliser folds it)
    for w in reversed(wraps):
        x = E('cast', w.a[0], w.a[1], x, loc=w.loc, ty=w.ty)
        y = E('cast', w.a[0], w.a[1], y, loc=w.loc, ty=w.ty)
    return e.a[0], x, y


def normalise(block):
    """One spelling for statements that can be written two ways, applied by both front ends to every function body so that
    no rule has to know both:  `return c ? a : b`, `T x = c ? a : b` and `x = c ? a : b` become the if/else they abbreviate
    (recursively; conversions around the ?: move into its arms)."""
    out = []
    for s in block:
        out.extend(_norm_stmt(s))
    return out


def _norm_stmt(s):
    k, a = s.k, s.a
    if k == 'if':
        return [S('if', a[0], normalise(a[1]), normalise(a[2]), loc=s.loc, raw=s.raw)]
    if k == 'loop':
        return [S('loop', a[0], normalise(a[1]), a[2], normalise(a[3]), normalise(a[4]), *a[5:], loc=s.loc, raw=s.raw)]
    if k == 'switch':
        return [S('switch', a[0], [(labels, normalise(blk)) for labels, blk in a[1]], loc=s.loc, raw=s.raw)]
    if k == 'block':
        return [S('block', normalise(a[0]), loc=s.loc, raw=s.raw)]
    if k == 'try':
        return [S('try', normalise(a[0]), [(t, n, normalise(b)) for t, n, b in a[1]], normalise(a[2]), loc=s.loc, raw=s.raw)]
    if k == 'with':
        return [S('with', a[0], normalise(a[1]), loc=s.loc, raw=s.raw)]
    if k == 'return' and a[0] is not None:
        sp = _cond_parts(a[0])
        if sp is not None:
            c, x, y = sp
            return [S('if', c, _norm_stmt(S('return', x, loc=s.loc, raw=s.raw)), _norm_stmt(S('return', y, loc=s.loc, raw=s.raw)), loc=s.loc, raw=s.raw)]
    if k == 'decl' and a[2] is not None:
        sp = _cond_parts(a[2])
        if sp is not None:
            c, x, y = sp
            tgt = E('var', a[0], loc=s.loc, ty=a[1])
            return [S('decl', a[0], a[1], None, loc=s.loc, raw=s.raw),
                    S('if', c, _norm_stmt(S('assign', tgt, x, '=', loc=s.loc, raw=s.raw)), _norm_stmt(S('assign', tgt, y, '=', loc=s.loc, raw=s.raw)), loc=s.loc, raw=s.raw)]
    if k == 'assign' and a[2] == '=' and a[0].k in ('var', 'field', 'index', 'deref'):
        sp = _cond_parts(a[1])
        if sp is not None:
            c, x, y = sp
            return [S('if', c, _norm_stmt(S('assign', a[0], x, '=', loc=s.loc, raw=s.raw)), _norm_stmt(S('assign', a[0], y, '=', loc=s.loc, raw=s.raw)), loc=s.loc, raw=s.raw)]
    # f(c ? a : b, c ? p : q) with a side-effect-free c: the two calls it abbreviates
    pos = {'return': 0, 'decl': 2, 'assign': 1, 'expr': 0}.get(k)
    if pos is not None and a[pos] is not None and (k != 'assign' or a[2] == '='):
        sp = _call_cond(a[pos])
        if sp is not None:
            c, x, y = sp
            mk = lambda v: S(k, *(list(a[:pos]) + [v] + list(a[pos + 1:])), loc=s.loc, raw=s.raw)
            return [S('if', c, _norm_stmt(mk(x)), _norm_stmt(mk(y)), loc=s.loc, raw=s.raw)]
    return [s]


def _pure_test(e):
    """a condition that can be evaluated earlier without changing anything: names, constants, comparisons and logic of those"""
    if e.k in ('var', 'const', 'this', 'null', 'str'):
        return True
    if e.k == 'field':
        return _pure_test(e.a[0])
    if e.k == 'cast':
        return _pure_test(e.a[2])
    if e.k == 'un':
        return _pure_test(e.a[1])
    if e.k == 'bin':
        return _pure_test(e.a[1]) and _pure_test(e.a[2])
    return False


def _call_cond(e):
    """e is a call / constructor display (possibly under conversions) one of whose arguments is `c ? x : y` with a pure c
    -> (c, e with every such argument replaced by its first arm, ... by its second arm)"""
    wraps = []
    top = e
    while top is not None and top.k == 'cast':
        wraps.append(top)
        top = top.a[2]
    if top is None or top.k not in ('call', 'init'):
        return None
    args = top.a[2] if top.k == 'call' else top.a[1]
    if not isinstance(args, (list, tuple)):
        return None
    cond = None
    for x in args:
        sp = _cond_parts(x) if isinstance(x, E) else None
        if sp is not None and _pure_test(sp[0]):
            cond = sp[0]
            break
    if cond is None:
        return None
    key = show(cond)

    def pick(i):
        out = []
        for x in args:
            sp = _cond_parts(x) if isinstance(x, E) else None
            out.append(sp[1 + i] if (sp is not None and show(sp[0]) == key) else x)
        if top.k == 'call':
            n = E('call', top.a[0], top.a[1], out, *top.a[3:], loc=top.loc, ty=getattr(top, 'ty', None), raw=getattr(top, 'raw', None))
        else:
            n = E('init', top.a[0], out, *top.a[2:], loc=top.loc, ty=getattr(top, 'ty', None), raw=getattr(top, 'raw', None))
        for w in reversed(wraps):
            n = E('cast', w.a[0], w.a[1], n, loc=w.loc, ty=w.ty)
        return n
    return cond, pick(0), pick(1)


def const(v, **kw):
    return E('const', v, **kw)


def var(n, **kw):
    return E('var', n, **kw)


def show(e):
    if not isinstance(e, E):
        return repr(e)
    k, a = e.k, e.a
    if k == 'const':
        return str(a[0])
    if k == 'str':
        return repr(a[0])
    if k == 'var':
        return a[0]
    if k == 'this':
        return 'this'
    if k == 'null':
        return 'null'
    if k == 'field':
        return '%s.%s' % (show(a[0]), a[1])
    if k == 'index':
        return '%s[%s]' % (show(a[0]), show(a[1]))
    if k == 'un':
        return '%s(%s)' % (a[0], show(a[1]))
    if k == 'bin':
        return '(%s %s %s)' % (show(a[1]), a[0], show(a[2]))
    if k == 'cast':
        return '(%s%d)%s' % ('i' if a[1] else 'u', a[0], show(a[2]))
    if k == 'call':
        r = (show(a[1]) + '.') if a[1] is not None else ''
        return '%s%s(%s)' % (r, a[0], ', '.join(show(x) for x in a[2]))
    if k == 'cond':
        return '(%s ? %s : %s)' % (show(a[0]), show(a[1]), show(a[2]))
    if k == 'init':
        return '%s{%s}' % (a[0], ', '.join(show(x) for x in a[1]))
    if k == 'addr':
        return '&' + show(a[0])
    if k == 'deref':
        return '*' + show(a[0])
    if k == 'opaque':
        return '<%s>' % (a[0],)
    return '%s(%s)' % (k, ', '.join(show(x) for x in a))


def walk_expr(e):
    """Pre-order over an expression tree."""
    if not isinstance(e, E):
        return
    yield e
    for x in e.a:
        if isinstance(x, E):
            yield from walk_expr(x)
        elif isinstance(x, (list, tuple)):
            for y in x:
                if isinstance(y, E):
                    yield from walk_expr(y)


def stmt_exprs(s):
    """Direct expressions of one statement (not of nested statements)."""
    k, a = s.k, s.a
    if k == 'assign':
        return [a[0], a[1]]
    if k in ('expr', 'return', 'raise'):
        return [a[0]] if a[0] is not None else []
    if k == 'decl':
        return [a[2]] if a[2] is not None else []
    if k == 'if':
        return [a[0]]
    if k == 'switch':
        return [a[0]]
    if k == 'loop':
        return [a[2]] if a[2] is not None else []
    return []


def walk_stmts(block):
    """Pre-order over all statements nested in a block (list of S)."""
    for s in block:
        yield s
        k, a = s.k, s.a
        if k == 'if':
            yield from walk_stmts(a[1])
            yield from walk_stmts(a[2])
        elif k == 'switch':
            for _labels, blk in a[1]:
                yield from walk_stmts(blk)
        elif k == 'loop':
            yield from walk_stmts(a[1])
            yield from walk_stmts(a[3])
            yield from walk_stmts(a[4])
        elif k == 'try':
            yield from walk_stmts(a[0])
            for _t, _n, blk in a[1]:
                yield from walk_stmts(blk)
            yield from walk_stmts(a[2])
        elif k == 'block':
            yield from walk_stmts(a[0])
        elif k == 'with':
            yield from walk_stmts(a[1])


def all_exprs(block):
    for s in walk_stmts(block):
        for e in stmt_exprs(s):
            yield from walk_expr(e)


def calls_in(block_or_expr, name=None):
    """All call expressions (optionally to qualified name `name` or a suffix '::name')."""
    it = walk_expr(block_or_expr) if isinstance(block_or_expr, E) else all_exprs(block_or_expr)
    for e in it:
        if e.k == 'call' and (name is None or e.a[0] == name or e.a[0].endswith('::' + name)
                              or e.a[0].endswith('.' + name)):
            yield e


def dump(block, ind=0, out=None):
    out = [] if out is None else out
    p = '  ' * ind
    for s in block:
        k, a = s.k, s.a
        if k == 'assign':
            out.append('%s%s %s %s' % (p, show(a[0]), a[2], show(a[1])))
        elif k == 'expr':
            out.append('%s%s' % (p, show(a[0])))
        elif k == 'decl':
            out.append('%slet %s : %s = %s' % (p, a[0], a[1], show(a[2]) if a[2] is not None else '-'))
        elif k == 'if':
            out.append('%sif %s' % (p, show(a[0])))
            dump(a[1], ind + 1, out)
            if a[2]:
                out.append('%selse' % p)
                dump(a[2], ind + 1, out)
        elif k == 'switch':
            out.append('%sswitch %s' % (p, show(a[0])))
            for labels, blk in a[1]:
                out.append('%s case %s' % (p, ', '.join('default' if l is None else show(l) for l in labels)))
                dump(blk, ind + 2, out)
        elif k == 'loop':
            out.append('%sloop[%s] cond=%s' % (p, a[0], show(a[2]) if a[2] is not None else 'true'))
            if a[1]:
                out.append('%s init:' % p)
                dump(a[1], ind + 2, out)
            if a[3]:
                out.append('%s step:' % p)
                dump(a[3], ind + 2, out)
            dump(a[4], ind + 1, out)
        elif k in ('return', 'raise'):
            out.append('%s%s %s' % (p, k, show(a[0]) if a[0] is not None else ''))
        elif k == 'try':
            out.append('%stry' % p)
            dump(a[0], ind + 1, out)
            for t, n, blk in a[1]:
                out.append('%sexcept %s as %s' % (p, t, n))
                dump(blk, ind + 1, out)
            if a[2]:
                out.append('%sfinally' % p)
                dump(a[2], ind + 1, out)
        elif k == 'block':
            dump(a[0], ind, out)
        elif k == 'with':
            out.append('%swith %s' % (p, ', '.join(show(x) for x in a[0])))
            dump(a[1], ind + 1, out)
        else:
            out.append('%s%s' % (p, k))
    return out
