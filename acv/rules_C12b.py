"""C12, second part: what the compiler writes is what the library reads back.

Decided on sweeps (acv/pipeline.py): TZ source text whose Zone and Rule lines range over the encoded quantities is put through
the compiler by interpreting the compiler's own code (Extractor -> Transformer -> TzDbCollector -> ArduinoGenerator), the C++
sources it writes are parsed by clang and every rendered entry is read through the IR of the broker accessors, exactly like
the shipped tables (rules_C12.check_db).  Nothing is assumed about *how* the generator packs a value or the broker unpacks
it - templates, masks, shifts, biases, helper functions can be rearranged freely on either side; what is decided is that
every value that gets through the transformer's admission tests comes back from the table as the value in its source line
(at the granularity the scope keeps), and that the text written for a cell is a constant the member can hold."""
from .common import AnalysisError
from . import py, pipeline, tzline
from .cxx import int_type

QUICK = (('extended', False), ('basic', False))
THOROUGH = (('extended', False), ('extended', True), ('basic', False), ('basic', True))
FIELDS = ('at', 'until', 'offset', 'save')


class _Sub:
    """report adaptor: rules_C12.check_db speaks R1-rule / R1-era / R1-info about a database; here the same findings are R3
    findings about a sweep"""

    def __init__(self, R, sw):
        self.R, self.sw, self.cfg = R, sw, R.cfg
        self.analysed = {}
        self.n = 0

    def _c(self, c):
        return 'sweep[%s]:%s' % (self.sw.label, c.split('::', 1)[-1])

    def rule(self, *a, **k):
        pass

    def note(self, *a, **k):
        pass

    def instance(self, rid, c, loc, note=None, **k):
        self.n += 1
        self.R.instance('R3', self._c(c), loc)

    def violation(self, rid, c, loc, msg, detail=None, **k):
        self.R.violation('R3', self._c(c), loc, '[%s] the compiler writes an entry that the broker reads back differently from its source line: %s' % (self.sw.label, msg),
                         detail=detail)


def _norm(s):
    return ' '.join((s or '').split())


def sweep_checks(cfg, R, lib, sw):
    from . import rules_C12
    T = sw.T
    sub = _Sub(R, sw)
    rules_C12.check_db(cfg, sub, lib, T)
    # the recorded line beside an entry is the source line it came from (else the comparison above is against something else)
    src = sw.source
    lines_of_zone = {pipeline_name: [_norm(x) for x in v] for pipeline_name, v in src['zones'].items()}
    all_rule_lines = {_norm(x) for v in src['rules'].values() for x in v}
    c0 = 'sweep[%s]:recorded-lines' % sw.label
    n = 0
    for short in T.infos:
        name = T.zone_name(short)
        eras = T.zone_eras(short)
        want = lines_of_zone.get(name)
        R.instance('R3-src', c0, T.infos[short].loc)
        n += 1
        if want is None:
            R.violation('R3-src', c0, T.infos[short].loc, '[%s] the rendered zone %r is not a zone of the source' % (sw.label, name))
            continue
        got = [_norm(e.comment) for e in eras]
        # eras before start_year / after until_year may be dropped: what is rendered must be a contiguous run of the source eras
        ok = any(want[i:i + len(got)] == got for i in range(0, len(want) - len(got) + 1)) if got else False
        if not ok:
            R.violation('R3-src', c0, T.infos[short].loc, '[%s] zone %s: the lines recorded beside its eras are %s, the source has %s' % (sw.label, name, got, want))
    for arr, entries in T.rules.items():
        for e in entries:
            line = _norm(e.comment)
            if line.startswith('Anchor:'):
                line = _norm(line[len('Anchor:'):])
            R.instance('R3-src', c0, e.loc)
            n += 1
            if line not in all_rule_lines:
                R.violation('R3-src', c0, e.loc, '[%s] %s[%d]: the recorded line %r is not a Rule line of the source' % (sw.label, arr, e.index, e.comment))
    # R5: the constant written for a cell fits the member it initialises (brace initialisation rejects anything else)
    worst = {}
    for struct, coll in (('ZoneRule', T.rules), ('ZoneEra', T.eras)):
        fields = {n_: int_type(t_) for n_, t_ in T.struct_fields[struct]}
        for arr, entries in coll.items():
            for e in entries:
                for fn, it in fields.items():
                    if it is None or not isinstance(e.cells.get(fn), int):
                        continue
                    # the constant as written, before the conversion to the member's type
                    nd = e.nodes.get(fn)
                    while nd is not None and nd.get('kind') in ('ImplicitCastExpr', 'ConstantExpr', 'ParenExpr', 'ExprWithCleanups') and nd.get('inner'):
                        nd = nd['inner'][-1]
                    v = T.tu.fold_node(nd) if nd is not None else None
                    if not isinstance(v, int) or isinstance(v, bool):
                        continue
                    lo, hi = (-(1 << (it[0] - 1)), (1 << (it[0] - 1)) - 1) if it[1] else (0, (1 << it[0]) - 1)
                    key = '%s::%s::%s' % (sw.scope, struct, fn)
                    R.instance('R5', key + ':fits', e.loc)
                    if not (lo <= v <= hi) and key not in worst:
                        worst[key] = (e, v, lo, hi, it)
    for key, (e, v, lo, hi, it) in sorted(worst.items()):
        R.violation('R5', key + ':fits', e.loc, '[%s] %s[%d] (%s): the generator writes the constant %d for a member of type %sint%d_t (range %d..%d): the braced '
                    'initialiser is ill-formed (narrowing), so the generated table does not compile' % (
                        sw.label, e.owner, e.index, _norm(e.comment), v, '' if it[1] else 'u', it[0], lo, hi))
    return sub.n + n


def encoder_rules(cfg, R, lib):
    ar = py.load(cfg, 'tools/zonedb/argenerator.py')
    tr = py.load(cfg, 'tools/tzdb/transformer.py')
    R.analysed['python_modules'] = [ar.rel, tr.rel, pipeline.EX, pipeline.CO]
    R.rule('R3', 'sweep: every era and rule the interpreted compiler emits is read back through the brokers as the value of its source line '
                 '(STDOFF at the granularity of the scope, SAVE / RULES offsets in quarter hours, AT / UNTIL to the minute with their suffix, years, days, letters)', floor=400)
    R.rule('R3-src', 'sweep: the line recorded beside a rendered entry is the source line it was made from', floor=150)
    R.rule('R5', 'every constant the generator writes fits the C++ member it initialises', floor=100)
    thorough = cfg.tier == 'thorough'
    total = 0
    for scope, strict in (THOROUGH if thorough else QUICK):
        try:
            sw = pipeline.sweep(cfg, scope, strict)
        except pipeline.Raised as r_:
            for rid in ('R3', 'R3-src', 'R5'):      # nothing is written, nothing can be read back: every sweep rule fails here
                R.instance(rid, 'sweep[%s%s]:compile' % (scope, ',strict' if strict else ''), tr.fn('Transformer.transform').loc)
                R.violation(rid, 'sweep[%s%s]:compile' % (scope, ',strict' if strict else ''), tr.fn('Transformer.transform').loc, '%s' % r_.what)
            continue
        total += sweep_checks(cfg, R, lib, sw)
    if thorough:
        # one field at a time over its whole admissible range
        for scope in ('extended', 'basic'):
            for field in FIELDS:
                if scope == 'basic' and field == 'until':
                    continue            # basic zones carry a year-only UNTIL: there is no UNTIL time to sweep
                text = pipeline.field_sweep_text(scope, field)
                try:
                    sw = pipeline.sweep(cfg, scope, False, text=text, tag=field)
                except pipeline.Raised as r_:
                    for rid in ('R3', 'R3-src', 'R5'):
                        R.instance(rid, 'sweep[%s,%s]:compile' % (scope, field), tr.fn('Transformer.transform').loc)
                        R.violation(rid, 'sweep[%s,%s]:compile' % (scope, field), tr.fn('Transformer.transform').loc, '%s' % r_.what)
                    continue
                total += sweep_checks(cfg, R, lib, sw)
    R.analysed['sweep entries read back'] = total
    # -- years: to_tiny_year interpreted (E-SEQ over the Python ast) on every year a rule can carry
    c = 'zonedb.argenerator.to_tiny_year'
    f = ar.fn('to_tiny_year')
    R.instance('R3', c, f.loc)
    consts = {n: py.const_value(cfg, ar, n) for n in ('EPOCH_YEAR', 'MAX_YEAR', 'MAX_YEAR_TINY', 'MIN_YEAR', 'MIN_YEAR_TINY',
                                                       'MAX_UNTIL_YEAR', 'MAX_UNTIL_YEAR_TINY')}
    cpp = {'epoch': lib.const('ace_time::LocalDate::kEpochYear'),
           'max_tiny': lib.const('ace_time::basic::ZoneRule::kMaxYearTiny'),
           'max_until_tiny': lib.const('ace_time::basic::ZoneEra::kMaxUntilYearTiny'),
           'xmax_tiny': lib.const('ace_time::extended::ZoneRule::kMaxYearTiny'),
           'xmax_until_tiny': lib.const('ace_time::extended::ZoneEra::kMaxUntilYearTiny')}
    from .pyeval import PyEval, Raised as _PRaised
    pev = PyEval(cfg)
    ok, msg = True, ''
    for y in [consts['MIN_YEAR'], consts['MAX_YEAR']] + list(range(1872, 2128)):
        want_ = consts['MAX_YEAR_TINY'] if y == consts['MAX_YEAR'] else consts['MIN_YEAR_TINY'] if y == consts['MIN_YEAR'] else y - consts['EPOCH_YEAR']
        try:
            got_ = pev.call(ar, 'to_tiny_year', [y])
        except _PRaised as x_:
            got_ = 'raises %s' % x_.what
        if got_ != want_:
            ok, msg = False, 'to_tiny_year(%d) is %s, expected %s' % (y, got_, want_)
            break
    if ok:
        if consts['EPOCH_YEAR'] != cpp['epoch']:
            ok, msg = False, 'EPOCH_YEAR=%r but LocalDate::kEpochYear=%r' % (consts['EPOCH_YEAR'], cpp['epoch'])
        elif not (consts['MAX_YEAR_TINY'] == cpp['max_tiny'] == cpp['xmax_tiny']):
            ok, msg = False, 'MAX_YEAR_TINY=%r but ZoneRule::kMaxYearTiny=%r/%r' % (consts['MAX_YEAR_TINY'], cpp['max_tiny'], cpp['xmax_tiny'])
        elif not (consts['MAX_UNTIL_YEAR_TINY'] == cpp['max_until_tiny'] == cpp['xmax_until_tiny']):
            ok, msg = False, 'MAX_UNTIL_YEAR_TINY=%r but ZoneEra::kMaxUntilYearTiny=%r/%r' % (consts['MAX_UNTIL_YEAR_TINY'], cpp['max_until_tiny'], cpp['xmax_until_tiny'])
        elif not (-128 < consts['MIN_YEAR_TINY'] and consts['MAX_UNTIL_YEAR_TINY'] <= 127):
            ok, msg = False, 'tiny-year sentinels leave the int8 range'
    if not ok:
        R.violation('R3', c, f.loc, msg)
