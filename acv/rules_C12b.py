"""C12-R3 (encoder/decoder constant pairing, template field order) and C12-R4 (admissibility guards)."""
import ast
import re

from .common import AnalysisError
from . import py, gnf
from .gnf import Poly, SymExec
from .cxx import int_type


def _single_atom(p):
    """Poly that is 1*atom (+0) -> atom, else None."""
    if len(p.t) == 1:
        (k, v), = p.t.items()
        if len(k) == 1 and v == 1:
            return k[0]
    return None


def _P(key):
    return Poly(dict(key))


def _cxx_summary(lib, qual, params):
    f = lib.fn(qual)
    sx = SymExec(fold_global=lib.global_value)
    s = sx.run(qual, f.body, {})
    rets = [p for p in s.paths if p[1] == 'return']
    if len(rets) != 1 or len(s.paths) != 1:
        raise AnalysisError('%s: %s is expected to be a single-expression decoder' % (f.loc, qual))
    return f, _P(rets[0][2])


def _linear(p):
    lin = p.linear_in()
    if lin is None:
        return None
    return lin


def decoder_constants(lib, R):
    """Constants of the C++ decoders, derived from their *value tables*: each decoder is folded through its real body
    (constant propagation, typed: every conversion and read wraps to its width) over its whole argument domain - all 256
    byte values of the packed argument, a spread of code values - and fitted to the affine / mask form the encoder pairs
    with.  How the body spells the form (&, %, shifts before or after masking, operand order, named locals) is immaterial;
    a body that is not of the form is reported with the first argument values where it deviates."""
    from .ceval import CEval
    d = {}
    ev = CEval(lib)

    memo = {}

    def fold(f, *args):
        k = (f.name, args)
        if k not in memo:
            try:
                memo[k] = ev.call(f, None, args)
            except Exception as ex:
                raise AnalysisError('%s: decoder cannot be folded on %r (%s)' % (f.loc, args, ex))
        return memo[k]

    def mask_of(g, width=8):
        """g: byte -> int is  (x & MASK) scaled: returns MASK when g(x) == g(x & MASK) and bits outside do not matter"""
        m = 0
        for b in range(width):
            if any(g(x) != g(x ^ (1 << b)) for x in range(1 << width)):
                m |= 1 << b
        return m
    # timeCodeToMinutes(code, modifier) = K*code + (modifier & mm)
    f = lib.fn('ace_time::internal::timeCodeToMinutes')
    d['time_loc'] = f.loc
    base = fold(f, 0, 0)
    K = fold(f, 1, 0) - base
    mm = mask_of(lambda m: fold(f, 0, m))
    bad = None
    for c in (0, 1, 2, 47, 95, 96, 100, 127):
        for m in range(256):
            if fold(f, c, m) != K * c + (m & mm):
                bad = (c, m, fold(f, c, m), K * c + (m & mm))
                break
        if bad:
            break
    if bad is None and base == 0 and K > 0 and gnf.is_pow2(mm + 1):
        d['time_K'], d['time_minute_mod'] = K, mm + 1
    else:
        d['time_form'] = 'timeCodeToMinutes(%s, %s) = %s, not %s' % bad if bad else 'K = %d, minute mask 0x%02x' % (K, mm)
    # toSuffix(modifier) = modifier & MASK
    f = lib.fn('ace_time::internal::toSuffix')
    d['suffix_loc'] = f.loc
    sm = mask_of(lambda m: fold(f, m))
    bad = next(((m, fold(f, m)) for m in range(256) if fold(f, m) != (m & sm)), None)
    if bad is None:
        d['suffix_mask'] = sm
    else:
        d['suffix_form'] = 'toSuffix(%d) = %d, not %d' % (bad[0], bad[1], bad[0] & sm)
    # extended::toDeltaMinutes(deltaCode) = K*((deltaCode & dm) - B)     (deltaCode is the stored signed byte)
    f = lib.fn('ace_time::extended::toDeltaMinutes')
    d['delta_loc'] = f.loc
    dom = list(range(-128, 128))
    g = lambda x: fold(f, x if x < 128 else x - 256)
    dm = mask_of(g)
    K = g(1) - g(0)
    bad = None
    if K and g(0) % K == 0:
        B = -g(0) // K
        bad = next(((x, fold(f, x)) for x in dom if fold(f, x) != K * (((x & 0xff) & dm) - B)), None)
        if bad is None and gnf.is_pow2(dm + 1):
            d['delta_K'], d['delta_mod'], d['delta_bias'] = K, dm + 1, B
    if 'delta_K' not in d:
        d['delta_form'] = ('toDeltaMinutes(%d) = %d' % bad) if bad else 'step %d, value at 0 %d, mask 0x%02x' % (K, g(0), dm)
    # extended::toOffsetMinutes(offsetCode, deltaCode) = K*offsetCode + ((deltaCode & MASK) >> S)
    f = lib.fn('ace_time::extended::toOffsetMinutes')
    d['offset_loc'] = f.loc
    K = fold(f, 1, 0) - fold(f, 0, 0)
    h = lambda x: fold(f, 0, x if x < 128 else x - 256)
    om = mask_of(h)
    bad = None
    if om and K > 0 and fold(f, 0, 0) == 0:
        S = om & -om            # lowest set bit: the shift divisor
        for c in (-48, -1, 0, 1, 56):
            for x in dom:
                if fold(f, c, x) != K * c + (((x & 0xff) & om) // S):
                    bad = (c, x, fold(f, c, x))
                    break
            if bad:
                break
        if bad is None:
            d['offset_K'], d['offset_shift_div'], d['offset_mask'] = K, S, om
    if 'offset_K' not in d:
        d['offset_form'] = ('toOffsetMinutes(%d, %d) = %d' % bad) if bad else 'step %d, mask 0x%02x' % (K, om)
    # basic brokers: K * code, read through the broker from a one-field record
    from .ceval import Obj
    from .rules_C12 import typed_obj, broker_field
    for acc, key, struct, field in (('ace_time::basic::ZoneRuleBroker::deltaMinutes', 'basic_rule_delta_K', 'ZoneRule', 'deltaCode'),
                                    ('ace_time::basic::ZoneEraBroker::deltaMinutes', 'basic_era_delta_K', 'ZoneEra', 'deltaCode'),
                                    ('ace_time::basic::ZoneEraBroker::offsetMinutes', 'basic_era_offset_K', 'ZoneEra', 'offsetCode')):
        f = lib.fn(acc)
        d[key + '_loc'] = f.loc
        bq = acc.rsplit('::', 1)[0]
        bf = broker_field(lib, bq)
        vals = {}
        try:
            for code in (-8, -1, 0, 1, 2, 7, 56):
                cells = {n: 0 for n, _t, _x in lib.fields('ace_time::basic::' + struct)}
                cells[field] = code
                vals[code] = ev.call(f, Obj({bf: typed_obj(lib, 'ace_time::basic::' + struct, cells)}), ())
        except Exception as ex:
            d[key + '_form'] = 'cannot be folded (%s)' % ex
            continue
        K = vals[1] - vals[0]
        if vals[0] == 0 and K and all(v == K * c for c, v in vals.items()):
            d[key] = K
        else:
            d[key + '_form'] = 'values %r' % vals
    return d


def _template_expr(fstr_atom):
    """('fstr', parts) whose constant parts spell a C++ arithmetic expression with holes ->
    (python ast of the expression with holes named v0, v1..., [hole Poly keys])."""
    parts = fstr_atom[1]
    text = ''
    holes = []
    for k in parts:
        p = _P(k)
        a = _single_atom(p)
        if a is not None and a[0] == 'str':
            text += a[1]
        else:
            text += ' v%d ' % len(holes)
            holes.append(p)
    try:
        tree = ast.parse(text.strip(), mode='eval')
    except SyntaxError:
        return None, holes, text
    return tree.body, holes, text


def _lin_of_template(node, nholes):
    """linear form {hole index: coef}, const of an arithmetic template (+, -, *, <<, parentheses)."""
    if isinstance(node, ast.Constant) and isinstance(node.value, int):
        return {}, node.value
    if isinstance(node, ast.Name) and re.match(r'^v\d+$', node.id):
        return {int(node.id[1:]): 1}, 0
    if isinstance(node, ast.UnaryOp) and isinstance(node.op, (ast.UAdd, ast.USub)):
        l = _lin_of_template(node.operand, nholes)
        if l is None:
            return None
        s = 1 if isinstance(node.op, ast.UAdd) else -1
        return {k: s * v for k, v in l[0].items()}, s * l[1]
    if isinstance(node, ast.BinOp):
        l = _lin_of_template(node.left, nholes)
        r = _lin_of_template(node.right, nholes)
        if l is None or r is None:
            return None
        if isinstance(node.op, (ast.Add, ast.Sub)):
            s = 1 if isinstance(node.op, ast.Add) else -1
            t = dict(l[0])
            for k, v in r[0].items():
                t[k] = t.get(k, 0) + s * v
            return t, l[1] + s * r[1]
        if isinstance(node.op, ast.LShift) and not r[0]:
            m = 1 << r[1]
            return {k: v * m for k, v in l[0].items()}, l[1] * m
        if isinstance(node.op, ast.Mult) and not r[0]:
            return {k: v * r[1] for k, v in l[0].items()}, l[1] * r[1]
        if isinstance(node.op, ast.Mult) and not l[0]:
            return {k: v * l[1] for k, v in r[0].items()}, r[1] * l[1]
    return None


def _py_summary(mod, name):
    f = mod.fn(name)
    sx = SymExec(lang='py')
    sx.tables = mod.table_elems          # `for a, b in SOME_TABLE:` over a module-level constant table is unrolled
    return f, sx.run(name, f.body, {})


def _div_consts(p, tags):
    """constants c of atoms tag(x, c) found anywhere inside Poly p (recursively)."""
    out = []

    def rec_key(k):
        rec(_P(k))

    def rec(q):
        for a in q.atoms():
            if a[0] in tags:
                c = _P(a[2])
                if c.is_const():
                    out.append((a[0], c.const_value(), a))
                rec_key(a[1])
            elif a[0] == 'fn':
                for x in a[2]:
                    if isinstance(x, tuple) and x and x[0] == 'kw':
                        rec_key(x[2])
                    else:
                        rec_key(x)
            elif a[0] in ('init', 'fstr'):
                for x in a[-1]:
                    rec_key(x)
            elif a[0] == 'proj':
                rec_key(a[2])
    rec(p)
    return out


def encoder_rules(cfg, R, lib):
    ar = py.load(cfg, 'tools/zonedb/argenerator.py')
    tr = py.load(cfg, 'tools/tzdb/transformer.py')
    R.analysed['python_modules'] = [ar.rel, tr.rel]
    R.rule('R3', 'encoder (argenerator.py) and decoder (Brokers.h) use paired constants, units, masks and biases', floor=14)
    D = decoder_constants(lib, R)

    def ob(construct, loc, ok, msg):
        R.instance('R3', construct, loc)
        if not ok:
            R.violation('R3', construct, loc, msg)

    # decoders have the recognised normal forms
    ob('ace_time::internal::timeCodeToMinutes', D['time_loc'], 'time_K' in D,
       'decoder is not K*code + (modifier mod M): %s' % D.get('time_form'))
    ob('ace_time::internal::toSuffix', D['suffix_loc'], 'suffix_mask' in D, 'decoder is not modifier & MASK: %s' % D.get('suffix_form'))
    ob('ace_time::extended::toDeltaMinutes', D['delta_loc'], 'delta_K' in D, 'decoder is not K*((code mod M) - B): %s' % D.get('delta_form'))
    ob('ace_time::extended::toOffsetMinutes', D['offset_loc'], 'offset_K' in D,
       'decoder is not K*offsetCode + ((deltaCode & MASK) >> S): %s' % D.get('offset_form'))
    for k in ('basic_rule_delta_K', 'basic_era_delta_K', 'basic_era_offset_K'):
        ob(k, D[k + '_loc'], k in D, 'basic decoder is not K*code: %s' % D.get(k + '_form'))
    if any(k not in D for k in ('time_K', 'suffix_mask', 'delta_K', 'offset_K', 'basic_rule_delta_K', 'basic_era_delta_K', 'basic_era_offset_K')):
        return
    # mask layout inside the modifier / deltaCode bytes
    mm = D['time_minute_mod'] - 1
    ob('modifier-byte-layout', D['suffix_loc'], gnf.is_pow2(mm + 1) and (mm & D['suffix_mask']) == 0 and (mm | D['suffix_mask']) == 0xff,
       'minute mask 0x%02x and suffix mask 0x%02x do not partition the modifier byte' % (mm, D['suffix_mask']))
    dm = D['delta_mod'] - 1
    ob('deltaCode-byte-layout', D['offset_loc'],
       gnf.is_pow2(dm + 1) and (dm & D['offset_mask']) == 0 and (dm | D['offset_mask']) == 0xff and D['offset_mask'] == dm * D['offset_shift_div'],
       'delta mask 0x%02x, offset-minute mask 0x%02x and shift divisor %d do not partition the deltaCode byte' % (dm, D['offset_mask'], D['offset_shift_div']))
    for scope in ('basic', 'extended'):
        vals = {s: lib.const('ace_time::%s::ZoneContext::kSuffix%s' % (scope, s)) for s in 'WSU'}
        ob('%s::ZoneContext::kSuffix*' % scope, D['suffix_loc'],
           len(set(vals.values())) == 3 and all((v & mm) == 0 and (v & D['suffix_mask']) == v for v in vals.values()),
           'suffix constants %r are not distinct values inside the suffix mask 0x%02x' % (vals, D['suffix_mask']))
    # -- _to_code_and_modifier
    f, s = _py_summary(ar, '_to_code_and_modifier')
    c = 'zonedb.argenerator._to_code_and_modifier'
    sec = f.params[0]
    paths = [p for p in s.paths if p[1] == 'return']
    ok = len(paths) == 2
    msg = 'expected two return paths (with and without a minute remainder)'
    if ok:
        for g, _k, r, _e in paths:
            a = _single_atom(_P(r))
            if a is None or a[0] != 'init' or len(a[2]) != 2:
                ok, msg = False, 'does not return (code, modifier)'
                break
            code = _single_atom(_P(a[2][0]))
            if not (code and code[0] == 'fn' and code[1] == 'div_to_zero' and _P(code[2][1]).is_const()):
                ok, msg = False, 'time code is not div_to_zero(seconds, D): %r' % _P(a[2][0])
                break
            Dcode = _P(code[2][1]).const_value()
            if Dcode != 60 * D['time_K']:
                ok, msg = False, 'time code divisor %d s is not 60 * %d (decoder multiplies the code by %d minutes)' % (Dcode, D['time_K'], D['time_K'])
                break
            modp = _P(a[2][1])
            fs = [x for x in modp.atoms() if x[0] == 'fstr']
            if not fs:
                # the path that emits no remainder: its guard must force the remainder to be zero
                rem_key = Poly.atom(('fdiv', Poly.atom(('fmod', Poly.atom(('sym', sec)).key(), Poly.const(Dcode).key())).key(), Poly.const(60).key())).key()
                leak = None
                for val in gnf.valuations([g]):
                    if not val.eval(g):
                        continue
                    reg = val.regions.get(rem_key)
                    if reg is None or (reg[0] == 'pt' and reg[1] != 0) or (reg[0] == 'gap' and (reg[2] is None or reg[2] > 0)):
                        leak = val.describe()
                        break
                if leak is not None:
                    ok, msg = False, ('the modifier is emitted without the minute remainder on a path where the remainder (seconds mod %d) // 60 '
                                      'can be non-zero (%s): such a time reads back rounded down to the quarter hour' % (Dcode, leak))
                    break
            if fs:
                tree, holes, text = _template_expr(fs[0])
                lin = _lin_of_template(tree, len(holes)) if tree is not None else None
                # the emitted text is "<modifier> + {timeMinute}": unary plus parses as +v0
                # ... or, when the whole modifier is one template, "<suffix constant> + <minute>" with the suffix as a hole
                rems = [h for h in holes if _single_atom(h) is not None and _single_atom(h)[0] == 'fdiv']
                rest = [h for h in holes if h not in rems]
                rest_ok = all(_single_atom(h) is not None and _single_atom(h)[0] == 'fn' and _single_atom(h)[1].endswith('_to_modifier') for h in rest)
                if tree is None or len(rems) != 1 or not rest_ok or lin is None or any(v != 1 for v in lin[0].values()) or lin[1] != 0:
                    ok, msg = False, 'minute remainder is not appended as " + <minute>" (%r)' % text
                    break
                rem = rems[0]
                ra = _single_atom(rem)
                good = (ra is not None and ra[0] == 'fdiv' and _P(ra[2]).const_value() == 60)
                inner = _single_atom(_P(ra[1])) if good else None
                good = good and inner is not None and inner[0] == 'fmod' and _P(inner[2]).const_value() == Dcode \
                    and _P(inner[1]) == Poly.atom(('sym', sec))
                if not good:
                    ok, msg = False, 'minute remainder is %r, not (seconds mod %d) // 60' % (rem, Dcode)
                    break
                if Dcode // 60 - 1 > mm:
                    ok, msg = False, 'minute remainder ranges over 0..%d but the decoder keeps only modifier & 0x%02x' % (Dcode // 60 - 1, mm)
                    break
    ob(c, f.loc, ok, msg)
    # -- _to_modifier: 'w'->kSuffixW ...
    f, s = _py_summary(ar, '_to_modifier')
    c = 'zonedb.argenerator._to_modifier'
    pairs = {}
    for g, k, r, _e in s.paths:
        if k != 'return':
            continue
        a = _single_atom(_P(r))
        txt = ''.join(_single_atom(_P(x))[1] for x in a[1] if _single_atom(_P(x)) and _single_atom(_P(x))[0] == 'str') if a and a[0] == 'fstr' else ''
        lits = [x[1] for at in gnf.formula_atoms(g) if at[0] == 'atom' for x in _P(at[1]).atoms() if x[0] == 'str']
        m = re.search(r'kSuffix(\w)', txt)
        # the positive literal of this path is the last equality tested
        pos = _positive_literal(g)
        if m and pos:
            pairs[pos] = m.group(1)
    ob(c, f.loc, pairs == {'w': 'W', 's': 'S', 'u': 'U'}, 'suffix letters map to %r, expected w->W, s->S, u->U' % pairs)
    # -- extended delta code
    f, s = _py_summary(ar, '_to_extended_delta_code')
    c = 'zonedb.argenerator._to_extended_delta_code'
    ok, msg = False, 'not a single "(seconds // D + B)" template'
    if len(s.paths) == 1 and s.paths[0][1] == 'return':
        a = _single_atom(_P(s.paths[0][2]))
        if a and a[0] == 'fstr':
            tree, holes, text = _template_expr(a)
            lin = _lin_of_template(tree, len(holes)) if tree is not None else None
            if lin and len(holes) == 1 and lin[0] == {0: 1}:
                h = _single_atom(holes[0])
                if h and h[0] in ('fdiv',) and _P(h[2]).is_const():
                    Dd = _P(h[2]).const_value()
                    B = lin[1]
                    if Dd != 60 * D['delta_K']:
                        msg = 'delta divisor %d s is not 60 * %d' % (Dd, D['delta_K'])
                    elif B != D['delta_bias']:
                        msg = 'encoder adds a bias of %d, decoder subtracts %d' % (B, D['delta_bias'])
                    else:
                        ok = True
                else:
                    msg = 'delta code is %r, not seconds // D' % holes[0]
    ob(c, f.loc, ok, msg)
    # -- extended offset and delta
    f, s = _py_summary(ar, '_to_extended_offset_and_delta')
    c = 'zonedb.argenerator._to_extended_offset_and_delta'
    ok, msg = False, 'not a single (offsetCode, "(minute << S) + delta") return'
    if len(s.paths) == 1 and s.paths[0][1] == 'return':
        a = _single_atom(_P(s.paths[0][2]))
        if a and a[0] == 'init' and len(a[2]) == 2:
            oc = _single_atom(_P(a[2][0]))
            dc = _single_atom(_P(a[2][1]))
            osec = f.params[0]
            if not (oc and oc[0] == 'fdiv' and _P(oc[1]) == Poly.atom(('sym', osec)) and _P(oc[2]).is_const()):
                msg = 'offsetCode is %r, not offsetSeconds // D (floor)' % _P(a[2][0])
            elif _P(oc[2]).const_value() != 60 * D['offset_K']:
                msg = 'offset divisor %d s is not 60 * %d' % (_P(oc[2]).const_value(), D['offset_K'])
            elif not (dc and dc[0] == 'fstr'):
                msg = 'deltaCode is not rendered as an expression template'
            else:
                Do = _P(oc[2]).const_value()
                tree, holes, text = _template_expr(dc)
                lin = _lin_of_template(tree, len(holes)) if tree is not None else None
                if not lin or len(holes) != 2 or lin[1] != 0:
                    msg = 'deltaCode template %r is not "(minute << S) + base"' % text
                else:
                    # which hole is the minute remainder
                    idx = [i for i, h in enumerate(holes) if _single_atom(h) and _single_atom(h)[0] == 'fdiv']
                    if len(idx) != 1:
                        msg = 'no minute remainder in the deltaCode template'
                    else:
                        i = idx[0]
                        h = _single_atom(holes[i])
                        inner = _single_atom(_P(h[1]))
                        if not (_P(h[2]).const_value() == 60 and inner and inner[0] == 'fmod'
                                and _P(inner[2]).const_value() == Do and _P(inner[1]) == Poly.atom(('sym', osec))):
                            msg = 'offset minute is %r, not (offsetSeconds mod %d) // 60 (non-negative remainder paired with the floor quotient)' % (holes[i], Do)
                        elif lin[0].get(i) != D['offset_shift_div']:
                            msg = 'encoder shifts the minute by a factor %r, decoder divides by %d' % (lin[0].get(i), D['offset_shift_div'])
                        elif lin[0].get(1 - i) != 1:
                            msg = 'base delta code enters with coefficient %r' % lin[0].get(1 - i)
                        elif (Do // 60 - 1) * D['offset_shift_div'] > D['offset_mask']:
                            msg = 'offset minute 0..%d does not fit mask 0x%02x' % (Do // 60 - 1, D['offset_mask'])
                        else:
                            base = _single_atom(holes[1 - i])
                            if not (base and base[0] == 'fn' and base[1] == '_to_extended_delta_code'):
                                msg = 'base delta code is %r, not _to_extended_delta_code(deltaSeconds)' % holes[1 - i]
                            else:
                                ok = True
                                fits = (lin[0][i], Do // 60 - 1, lin[0][1 - i])
    ob(c, f.loc, ok, msg)
    # R5: the emitted initializer is a constant expression of type int; brace initialisation of the member rejects a
    # constant outside the member's range (C++11 narrowing), so the largest value the template can spell must fit
    R.rule('R5', 'every value the deltaCode template can spell fits the C++ member it initialises', floor=1)
    c5 = 'zonedb.argenerator._to_extended_offset_and_delta:deltaCode-range'
    R.instance('R5', c5, f.loc)
    if ok:
        mty = None
        for n_, t_, _node in lib.fields('ace_time::extended::ZoneEra'):
            if n_ == 'deltaCode':
                mty = int_type(t_)
        if mty is None:
            raise AnalysisError('extended::ZoneEra::deltaCode: member or its integer type not found (anchor moved)')
        shift, max_minute, kbase = fits
        max_base = D['delta_mod'] - 1            # the low nibble the decoder keeps
        hi = shift * max_minute + kbase * max_base
        thi = (1 << (mty[0] - 1)) - 1 if mty[1] else (1 << mty[0]) - 1
        first_bad = next((mnt for mnt in range(max_minute + 1) if shift * mnt > thi), None)
        if hi > thi:
            R.violation('R5', c5, f.loc, 'the template "(minute << 4) + base" spells values up to %d (minute 0..%d, base 0..%d) but extended::ZoneEra::deltaCode is %sint%d_t '
                        '(max %d): for a standard offset whose minute remainder is %s or more the generated zone_infos.cpp is ill-formed (narrowing in a braced '
                        'initialiser) - the table cannot be compiled, let alone read back' % (
                            hi, max_minute, max_base, '' if mty[1] else 'u', mty[0], thi, first_bad))
    # -- basic scope: div_to_zero(x, 900) in the two item generators
    for fn_name, keys in (('ZoneInfosGenerator._generate_era_item', ('basic_era_offset_K', 'basic_era_delta_K')),
                          ('ZonePoliciesGenerator._generate_policy_item', ('basic_rule_delta_K',))):
        f = ar.fn(fn_name)
        calls = [n for n in ast.walk(f.node) if isinstance(n, ast.Call) and isinstance(n.func, ast.Name) and n.func.id == 'div_to_zero']
        c = 'zonedb.argenerator.' + fn_name
        K = {D[k] for k in keys}
        bad = [ast.unparse(n) for n in calls if not (len(n.args) == 2 and py.fold(cfg, ar, n.args[1]) in {60 * k for k in K})]
        ob(c, f.loc, len(calls) >= len(keys) and not bad and len(K) == 1,
           'basic-scope codes %s are not seconds / (60 * %s)' % (bad or [ast.unparse(n) for n in calls], sorted(K)))
    # -- years
    f = ar.fn('to_tiny_year')
    c = 'zonedb.argenerator.to_tiny_year'
    consts = {n: py.const_value(cfg, ar, n) for n in ('EPOCH_YEAR', 'MAX_YEAR', 'MAX_YEAR_TINY', 'MIN_YEAR', 'MIN_YEAR_TINY',
                                                       'MAX_UNTIL_YEAR', 'MAX_UNTIL_YEAR_TINY')}
    cpp = {'epoch': lib.const('ace_time::LocalDate::kEpochYear'),
           'max_tiny': lib.const('ace_time::basic::ZoneRule::kMaxYearTiny'),
           'max_until_tiny': lib.const('ace_time::basic::ZoneEra::kMaxUntilYearTiny'),
           'xmax_tiny': lib.const('ace_time::extended::ZoneRule::kMaxYearTiny'),
           'xmax_until_tiny': lib.const('ace_time::extended::ZoneEra::kMaxUntilYearTiny')}
    # interpreted (E-SEQ over the Python ast) on every year a rule can carry: the two sentinels map to their tiny sentinels,
    # every other year to year - EPOCH_YEAR
    from .pyeval import PyEval, Raised as _PRaised
    pev = PyEval(cfg)
    ok, msg = True, ''
    for y in [consts['MIN_YEAR'], consts['MAX_YEAR']] + list(range(1872, 2128)):
        want_ = consts['MAX_YEAR_TINY'] if y == consts['MAX_YEAR'] else consts['MIN_YEAR_TINY'] if y == consts['MIN_YEAR'] else y - consts['EPOCH_YEAR']
        try:
            got_ = pev.call(ar, 'to_tiny_year', [y])
        except _PRaised as x_:
            got_ = 'raises %s' % x_.what
        if got_ != want_:
            ok, msg = False, 'to_tiny_year(%d) is %s, expected %s' % (y, got_, want_)
            break
    if ok:
        if consts['EPOCH_YEAR'] != cpp['epoch']:
            ok, msg = False, 'EPOCH_YEAR=%r but LocalDate::kEpochYear=%r' % (consts['EPOCH_YEAR'], cpp['epoch'])
        elif not (consts['MAX_YEAR_TINY'] == cpp['max_tiny'] == cpp['xmax_tiny']):
            ok, msg = False, 'MAX_YEAR_TINY=%r but ZoneRule::kMaxYearTiny=%r/%r' % (consts['MAX_YEAR_TINY'], cpp['max_tiny'], cpp['xmax_tiny'])
        elif not (consts['MAX_UNTIL_YEAR_TINY'] == cpp['max_until_tiny'] == cpp['xmax_until_tiny']):
            ok, msg = False, 'MAX_UNTIL_YEAR_TINY=%r but ZoneEra::kMaxUntilYearTiny=%r/%r' % (consts['MAX_UNTIL_YEAR_TINY'], cpp['max_until_tiny'], cpp['xmax_until_tiny'])
        elif not (-128 < consts['MIN_YEAR_TINY'] and consts['MAX_UNTIL_YEAR_TINY'] <= 127):
            ok, msg = False, 'tiny-year sentinels leave the int8 range'
    ob(c, f.loc, ok, msg)
    template_rules(cfg, R, lib, ar)
    admissibility_rules(cfg, R, lib, ar, tr, D)


def _positive_literal(g):
    """string literal of the (single) non-negated equality atom in a conjunction."""
    pos = []

    def rec(f, neg):
        if f[0] == 'and':
            rec(f[1], neg)
            rec(f[2], neg)
        elif f[0] == 'not':
            rec(f[1], not neg)
        elif f[0] == 'atom' and not neg:
            for x in _P(f[1]).atoms():
                if x[0] == 'str':
                    pos.append(x[1])
    rec(g, False)
    return pos[0] if len(pos) == 1 else None


def formula_pos(g):
    return gnf.formula_str(g)


# -- template field order == struct member order (aggregate initialisation is positional) --------

TEMPLATES = [
    ('ZonePoliciesGenerator', 'ZONE_POLICIES_CPP_RULE_ITEM', 'ZoneRule', None),
    ('ZoneInfosGenerator', 'ZONE_INFOS_CPP_ERA_ITEM', 'ZoneEra', None),
]


def template_rules(cfg, R, lib, ar):
    R.rule('R3-order', 'cell order of the generator templates equals the member order of the C++ structs', floor=4)
    for cls, tname, struct, _ in TEMPLATES:
        node = ar.class_const(cls, tname)
        if not (isinstance(node, ast.Constant) and isinstance(node.value, str)):
            raise AnalysisError('anchor moved: %s.%s is not a string template' % (cls, tname))
        text = node.value
        # the aggregate body is the text between the first '{{' and the matching '}}'
        i = text.find('{{')
        j = text.rfind('}}')
        if i < 0 or j < i:
            raise AnalysisError('anchor moved: %s.%s has no aggregate body' % (cls, tname))
        body = text[i + 2:j]
        cells = [c.strip() for c in re.sub(r'/\*.*?\*/', '', body).split(',')]
        cells = [c for c in cells if c]
        holes = []
        for c_ in cells:
            m = re.findall(r'\{(\w+)\}', c_)
            holes.append(m[0] if m else c_)
        for scope in ('basic', 'extended'):
            fields = [n for n, _t, _x in lib.fields('ace_time::%s::%s' % (scope, struct))]
            c = 'zonedb.argenerator.%s.%s~%s::%s' % (cls, tname, scope, struct)
            R.instance('R3-order', c, ar.loc(node), ', '.join(holes))
            if holes != fields:
                R.violation('R3-order', c, ar.loc(node), 'template cells %s do not match struct members %s' % (holes, fields))


# -- R4: admissibility -----------------------------------------------------------------------------

def _range_guards(fn):
    """[(variable, lo, hi, If node)] for tests of the shape `v < lo or v > hi` in fn."""
    out = []

    def bound(x):
        """one comparison of a name with an integer -> (name, 'lo'|'hi', value): the test is true below lo / above hi"""
        if not (isinstance(x, ast.Compare) and len(x.ops) == 1):
            return None
        l, op, r = x.left, x.ops[0], x.comparators[0]
        if isinstance(l, ast.Name) and _int(r) is not None:
            name, c, flip = l.id, _int(r), False
        elif isinstance(r, ast.Name) and _int(l) is not None:
            name, c, flip = r.id, _int(l), True
        else:
            return None
        kind = type(op)
        if flip:
            kind = {ast.Lt: ast.Gt, ast.Gt: ast.Lt, ast.LtE: ast.GtE, ast.GtE: ast.LtE}.get(kind)
        if kind is ast.Lt:
            return name, 'lo', c
        if kind is ast.LtE:
            return name, 'lo', c + 1
        if kind is ast.Gt:
            return name, 'hi', c
        if kind is ast.GtE:
            return name, 'hi', c - 1
        return None
    for n in ast.walk(fn.node):
        if not isinstance(n, ast.If):
            continue
        t = n.test
        if isinstance(t, ast.BoolOp) and isinstance(t.op, ast.Or) and len(t.values) == 2:
            bs = [bound(x) for x in t.values]
            if all(bs) and bs[0][0] == bs[1][0] and {bs[0][1], bs[1][1]} == {'lo', 'hi'}:
                d = {k: v for _n, k, v in bs}
                out.append((bs[0][0], d['lo'], d['hi'], n))
        elif isinstance(t, ast.UnaryOp) and isinstance(t.op, ast.Not) and isinstance(t.operand, ast.Compare) and len(t.operand.ops) == 2 \
                and all(isinstance(o, ast.LtE) for o in t.operand.ops) and isinstance(t.operand.comparators[0], ast.Name):
            # not (lo <= v <= hi)
            lo, hi = _int(t.operand.left), _int(t.operand.comparators[1])
            if lo is not None and hi is not None:
                out.append((t.operand.comparators[0].id, lo, hi, n))
    return out


def _int(n):
    if isinstance(n, ast.Constant) and isinstance(n.value, int):
        return n.value
    if isinstance(n, ast.UnaryOp) and isinstance(n.op, ast.USub) and isinstance(n.operand, ast.Constant):
        return -n.operand.value
    return None


def _assigned_expr(fn, var, before):
    best = None
    for n in ast.walk(fn.node):
        if isinstance(n, ast.Assign) and len(n.targets) == 1 and isinstance(n.targets[0], ast.Name) and n.targets[0].id == var \
                and n.lineno < before.lineno:
            if best is None or n.lineno > best.lineno:
                best = n
    return best.value if best is not None else None


def admissibility_rules(cfg, R, lib, ar, tr, D):
    R.rule('R4', 'the transformer range-tests every encoded quantity against the capacity of its field', floor=3)
    # STDOFF code within int8
    f = tr.fn('Transformer._create_zones_with_expanded_offset_string')
    c = 'tzdb.transformer.Transformer._create_zones_with_expanded_offset_string'
    gs = _range_guards(f)
    R.instance('R4', c, f.loc, 'STDOFF code guard')
    it = int_type(dict((n, t) for n, t, _ in lib.fields('ace_time::basic::ZoneEra'))['offsetCode'])
    lo_cap, hi_cap = -(1 << (it[0] - 1)), (1 << (it[0] - 1)) - 1
    ok = False
    for v, lo, hi, node in gs:
        ex = _assigned_expr(f, v, node)
        if isinstance(ex, ast.Call) and isinstance(ex.func, ast.Name) and ex.func.id == 'div_to_zero' and py.fold(cfg, tr, ex.args[1]) == 60 * D['basic_era_offset_K']:
            if lo >= lo_cap and hi <= hi_cap and _removes(node):
                ok = True
    if not ok:
        R.violation('R4', c, f.loc, 'no guard keeps STDOFF / %d s inside [%d, %d] (offsetCode is int8)' % (60 * D['basic_era_offset_K'], lo_cap, hi_cap))
    # rule SAVE: code + bias inside the delta nibble
    f = tr.fn('Transformer._create_rules_with_expanded_delta_offset')
    c = 'tzdb.transformer.Transformer._create_rules_with_expanded_delta_offset'
    R.instance('R4', c, f.loc, 'SAVE code guard')
    ok = False
    for v, lo, hi, node in _range_guards(f):
        ex = _assigned_expr(f, v, node)
        if isinstance(ex, ast.BinOp) and isinstance(ex.op, ast.Add) and _int(ex.right) == D['delta_bias'] \
                and isinstance(ex.left, ast.Call) and getattr(ex.left.func, 'id', None) == 'div_to_zero' \
                and py.fold(cfg, tr, ex.left.args[1]) == 60 * D['delta_K']:
            if lo >= 0 and hi <= D['delta_mod'] - 1 and _removes(node):
                ok = True
    if not ok:
        R.violation('R4', c, f.loc, 'no guard keeps SAVE / %d s + %d inside [0, %d] (4-bit delta code)' % (60 * D['delta_K'], D['delta_bias'], D['delta_mod'] - 1))
    # era fixed RULES delta: same capacity
    f = tr.fn('Transformer._create_zones_with_rules_expansion')
    c = 'tzdb.transformer.Transformer._create_zones_with_rules_expansion'
    R.instance('R4', c, f.loc, 'fixed RULES delta guard')
    ok = False
    for v, lo, hi, node in _range_guards(f):
        ex = _assigned_expr(f, v, node)
        src = ast.unparse(ex) if ex is not None else ''
        if 'rules_delta_seconds' in src and lo >= 0 and hi <= D['delta_mod'] - 1 and _removes(node):
            ok = True
    if not ok:
        R.violation('R4', c, f.loc,
                    'a fixed RULES offset (e.g. "4:00") is never range-tested although it is packed into the same 4-bit '
                    'delta code as SAVE: "(m << 4) + (seconds // 900 + 4)" overflows into the offset-minute nibble')


def _removes(if_node):
    """the guarded branch records a removal (calls _add_reason) and leaves the loop / marks invalid."""
    calls = [n for n in ast.walk(if_node) if isinstance(n, ast.Call) and getattr(n.func, 'id', None) == '_add_reason']
    return bool(calls)
