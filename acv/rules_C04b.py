"""C04, first part: the hand-translated helper pairs of the extended processor, decided by bilateral interpretation.

Each C++ helper of ExtendedZoneProcessor and its Python sibling in zone_specifier.py is interpreted (E-SEQ: acv/aeval.py typed
for C++ - brokers, DateTuple operators, LocalDate arithmetic through their real bodies - and acv/pyeval.py for Python) on every
member of a small family of inputs that places the compared quantities in every order relative to one another; the two results
must be the same value.  How either side spells the computation - helpers, early returns, chained comparisons, tuples built
in one place or another - is immaterial; what a field of a zone era *means* (minutes and suffix of its UNTIL time) is asked of
the C++ broker itself, not assumed."""
import itertools

from .common import AnalysisError

NSX = 'ace_time::extended::'


class _Ctx:
    def __init__(self, R, lib, zs, sv):
        from .aeval import CxxModule
        from .pyeval import PyEval
        from .rules_C04 import XP
        self.R, self.lib, self.zs, self.sv = R, lib, zs, sv
        self.XP = XP
        self.mod = CxxModule(lib, ['ace_time::'])
        self.pev = PyEval(R.cfg)
        self.DT = self.pev.global_name(zs, 'DateTuple', zs.rel)
        self.YM = self.pev.global_name(zs, 'YearMonthTuple', zs.rel)
        self.vs = {v: k for k, v in sv.items()}
        self._era_cache = {}

    # ---- C++ side
    def cfn(self, name):
        return self.lib.fn(self.XP + name)

    def ccall(self, f, args, recv=None, intr=None):
        from .aeval import AEval, CxxModule, Raised
        try:
            return AEval(module=self.mod, intrinsics=intr or {'ace_time::logging::printf': lambda e_, r_, a_: None}, typed=True,
                         max_steps=200000).call_function(f.name, list(args), recv=recv, chosen=CxxModule._Fn(f))
        except Raised as x_:
            return ('raises', x_.what)
        except IndexError:
            return ('raises', 'a read outside an array')
        except AnalysisError as ex:
            if 'step budget' in str(ex) or 'does not terminate' in str(ex):
                return ('raises', 'does not terminate')
            raise

    def era(self, yt, month, day, code, modifier):
        """(C++ broker, Python ZoneEraCooked) of one zone era whose UNTIL fields are the given table cells; the minutes and
        the suffix they stand for are read through the broker's own accessors"""
        from .aeval import cxx_object
        from .pyeval import PObj
        key = (yt, month, day, code, modifier)
        if key in self._era_cache:
            return self._era_cache[key]
        z = cxx_object(self.lib, NSX + 'ZoneEra')
        z.attrs.update({'untilYearTiny': yt, 'untilMonth': month, 'untilDay': day, 'untilTimeCode': code, 'untilTimeModifier': modifier})
        br = cxx_object(self.lib, NSX + 'ZoneEraBroker')
        br.attrs['mZoneEra'] = z
        got = {}
        for acc in ('untilYearTiny', 'untilMonth', 'untilDay', 'untilTimeMinutes', 'untilTimeSuffix'):
            f = self.lib.fn(NSX + 'ZoneEraBroker::' + acc)
            got[acc] = self.ccall(f, [], recv=br)
            if not isinstance(got[acc], int):
                raise AnalysisError('%s: the accessor does not give a number on an abstract era (%r)' % (f.loc, got[acc]))
        if got['untilTimeSuffix'] not in self.vs:
            raise AnalysisError('ZoneEraBroker::untilTimeSuffix gives %r, not one of kSuffixW/S/U, for the modifier 0x%02x' % (got['untilTimeSuffix'], modifier))
        pe = PObj(self.zs, 'ZoneEraCooked', {'untilYear': 2000 + got['untilYearTiny'], 'untilMonth': got['untilMonth'], 'untilDay': got['untilDay'],
                                             'untilSeconds': 60 * got['untilTimeMinutes'], 'untilTimeSuffix': self.vs[got['untilTimeSuffix']]})
        self._era_cache[key] = (br, pe, got)
        return self._era_cache[key]

    def ctuple(self, yt, month, day, minutes, suffix):
        from .aeval import cxx_object
        o = cxx_object(self.lib, NSX + 'DateTuple')
        o.attrs.update({'yearTiny': yt, 'month': month, 'day': day, 'minutes': minutes, 'suffix': self.sv[suffix]})
        return o

    def cym(self, yt, month):
        from .aeval import cxx_object
        o = cxx_object(self.lib, NSX + 'YearMonthTuple')
        o.attrs.update({'yearTiny': yt, 'month': month})
        return o

    def read_ctuple(self, o):
        from .aeval import AObj, Ref
        if isinstance(o, Ref):
            o = o.get()
        if not isinstance(o, AObj):
            return ('not a DateTuple', repr(o))
        a = o.attrs
        return (2000 + a['yearTiny'], a['month'], a['day'], 60 * a['minutes'], self.vs.get(a['suffix'], a['suffix']))

    # ---- Python side
    def pcall(self, qname, vals):
        """call by parameter name (the order of the parameters is the function's own business)"""
        from .pyeval import Raised as PRaised
        f = self.zs.fn(qname)
        params = [p for p in f.params if p not in ('self', 'cls')]
        if sorted(params) != sorted(vals):
            raise AnalysisError('%s: parameters %s are not %s' % (f.loc, params, sorted(vals)))
        self.pev.steps = 0
        try:
            return self.pev.call(self.zs, qname, [vals[p] for p in params])
        except PRaised as x_:
            return ('raises', x_.what)

    def ptuple(self, y, month, day, ss, suffix):
        return self.pev.apply(self.DT, [], dict(y=y, M=month, d=day, ss=ss, f=suffix))

    def pym(self, y, month):
        return self.pev.apply(self.YM, [], dict(y=y, M=month))

    @staticmethod
    def read_ptuple(t):
        try:
            return (t.y, t.M, t.d, t.ss, t.f)
        except AttributeError:
            return ('not a DateTuple', repr(t))


def _report(R, c, cf, pf, n, diffs, what):
    R.instance('R1', c, cf.loc, '%d interpreted cases (%s)' % (n, what))
    if diffs:
        d = diffs[0]
        R.violation('R1', c, cf.loc, 'the two implementations differ when %s: C++ -> %s, Python -> %s' % (d[0], d[1], d[2]),
                    detail=['%d differing cases of %d' % (len(diffs), n), 'Python side: %s' % pf.loc])


def era_cells(sv):
    """UNTIL cells around March 2001: the month before / of / after, the year before / after, the 1st and a later day, midnight and
    later, every suffix"""
    out = []
    for yt, mo in ((0, 3), (1, 2), (1, 3), (1, 4), (2, 3), (1, 1), (1, 12), (0, 12), (2, 1)):
        for day in (1, 2):
            for code, mod in ((0, sv['w']), (0, sv['s']), (8, sv['w']), (0, sv['u'] + 1), (95, sv['w'] + 14)):
                out.append((yt, mo, day, code, mod))
    return out


def compare_era_pair(X):
    cf = X.cfn('compareEraToYearMonth')
    pf = X.zs.fn('ZoneSpecifier._compare_era_to_year_month')
    n, diffs = 0, []
    for cell in era_cells(X.sv):
        br, pe, got = X.era(*cell)
        for yt, mo in ((1, 3), (1, 1), (1, 12)):
            oc = X.ccall(cf, [br, yt, mo])
            op = X.pcall(pf.name, {'era': pe, 'year': 2000 + yt, 'month': mo})
            n += 1
            if oc != op:
                diffs.append(('the era ends %04d-%02d-%02d %02d:%02d%s and is compared with %04d-%02d' % (
                    2000 + got['untilYearTiny'], got['untilMonth'], got['untilDay'], got['untilTimeMinutes'] // 60, got['untilTimeMinutes'] % 60,
                    X.vs[got['untilTimeSuffix']], 2000 + yt, mo), oc, op))
    _report(X.R, 'compareEraToYearMonth~ZoneSpecifier._compare_era_to_year_month', cf, pf, n, diffs, 'UNTIL before / in / after the month, day 1 or later, midnight or later')


def overlap_pair(X):
    cf = X.cfn('eraOverlapsInterval')
    pf = X.zs.fn('ZoneSpecifier._era_overlaps_interval')
    cells = [(yt, mo, day, code, X.sv['w']) for (yt, mo) in ((0, 12), (1, 2), (1, 3), (1, 4), (1, 8), (1, 9), (1, 10), (2, 1)) for day, code in ((1, 0), (1, 8), (2, 0))]
    n, diffs = 0, []
    for c1, c2 in itertools.product(cells, repeat=2):
        b1, p1, g1 = X.era(*c1)
        b2, p2, g2 = X.era(*c2)
        oc = X.ccall(cf, [b1, b2, X.cym(1, 3), X.cym(1, 9)])
        op = X.pcall(pf.name, {'prev_era': p1, 'era': p2, 'start_ym': X.pym(2001, 3), 'until_ym': X.pym(2001, 9)})
        n += 1
        if (oc if isinstance(oc, tuple) else bool(oc)) != (op if isinstance(op, tuple) else bool(op)):
            diffs.append(('the previous era ends %s, the era ends %s and the interval is [2001-03, 2001-09)' % (_ends(X, g1), _ends(X, g2)), oc, op))
    _report(X.R, 'eraOverlapsInterval~ZoneSpecifier._era_overlaps_interval', cf, pf, n, diffs, 'both UNTILs before / at / inside / at the end of / after the interval')


def _ends(X, got):
    return '%04d-%02d-%02d %02d:%02d%s' % (2000 + got['untilYearTiny'], got['untilMonth'], got['untilDay'], got['untilTimeMinutes'] // 60,
                                           got['untilTimeMinutes'] % 60, X.vs[got['untilTimeSuffix']])


def prior_year_pair(X):
    cf = X.cfn('getMostRecentPriorYear')
    pf = X.zs.fn('_get_most_recent_prior_year')
    none_c = X.lib.const('ace_time::LocalDate::kInvalidYearTiny')
    n, diffs = 0, []
    yrs = range(0, 6)
    for fr, to, st, en in itertools.product(yrs, yrs, yrs, yrs):
        if fr > to or st > en:
            continue
        oc = X.ccall(cf, [fr, to, st, en])
        op = X.pcall(pf.name, {'from_year': 2000 + fr, 'to_year': 2000 + to, 'start_year': 2000 + st, 'end_year': 2000 + en})
        oc_ = 'none' if oc == none_c else (2000 + oc if isinstance(oc, int) else oc)
        op_ = 'none' if op == -1 else op
        n += 1
        if oc_ != op_:
            diffs.append(('a rule is in force %d..%d and the match covers %d..%d' % (2000 + fr, 2000 + to, 2000 + st, 2000 + en), oc_, op_))
    _report(X.R, 'getMostRecentPriorYear~_get_most_recent_prior_year', cf, pf, n, diffs, 'every ordering of from <= to, start <= end over six years')


def fuzzy_pair(X):
    from .aeval import cxx_object
    from .pyeval import PObj
    cf = X.cfn('compareTransitionToMatchFuzzy')
    pf = X.zs.fn('_compare_transition_to_match_fuzzy')
    n, diffs = 0, []
    months = [(y, m) for y in (0, 1, 2) for m in range(1, 13)]
    bounds = [((1, 3), (1, 9)), ((0, 12), (1, 2)), ((1, 11), (2, 2)), ((1, 6), (1, 6))]
    for (sy, sm), (uy, um) in bounds:
        for ty, tm in months:
            tr = cxx_object(X.lib, NSX + 'Transition')
            tr.attrs['transitionTime'].attrs.update({'yearTiny': ty, 'month': tm, 'day': 15, 'minutes': 120, 'suffix': X.sv['w']})
            m = cxx_object(X.lib, NSX + 'ZoneMatch')
            m.attrs['startDateTime'].attrs.update({'yearTiny': sy, 'month': sm, 'day': 1, 'minutes': 0, 'suffix': X.sv['w']})
            m.attrs['untilDateTime'].attrs.update({'yearTiny': uy, 'month': um, 'day': 1, 'minutes': 0, 'suffix': X.sv['w']})
            args = [m if 'ZoneMatch' in (pt_ or '') else tr for (_pn, pt_) in cf.params]
            oc = X.ccall(cf, args)
            ptr = PObj(X.zs, 'Transition', {'transitionTime': X.ptuple(2000 + ty, tm, 15, 7200, 'w')})
            pm = PObj(X.zs, 'ZoneMatch', {'startDateTime': X.ptuple(2000 + sy, sm, 1, 0, 'w'), 'untilDateTime': X.ptuple(2000 + uy, um, 1, 0, 'w')})
            op = X.pcall(pf.name, {'transition': ptr, 'match': pm})
            n += 1
            if oc != op:
                diffs.append(('the match is [%04d-%02d, %04d-%02d) and the transition falls in %04d-%02d' % (2000 + sy, sm, 2000 + uy, um, 2000 + ty, tm), oc, op))
    _report(X.R, 'compareTransitionToMatchFuzzy~_compare_transition_to_match_fuzzy', cf, pf, n, diffs, 'every month of three years against four matches')


def expand_pair(X):
    from .aeval import Ref
    cf = X.cfn('expandDateTuple')
    pf = X.zs.fn('ZoneSpecifier._expand_date_tuple')
    n, diffs = 0, []
    dates = [(1, 3, 15), (1, 1, 1), (0, 12, 31), (0, 2, 29), (1, 2, 28), (1, 3, 1)]
    for suffix in 'wsu':
        for (yt, mo, dy), minutes, off, delta in itertools.product(dates, (0, 60, 120, 1380, 1440), (-720, -210, 0, 60, 840), (0, 60, 120, -60)):
            box = [X.ctuple(yt, mo, dy, minutes, suffix), X.ctuple(0, 1, 1, 0, 'w'), X.ctuple(0, 1, 1, 0, 'w')]
            vals = {}
            refs = iter([Ref(box, 0), Ref(box, 1), Ref(box, 2)])
            names = []
            for (pn_, pt_) in cf.params:
                if '*' in (pt_ or ''):
                    vals[pn_] = next(refs)
                    names.append(pn_)
            ints = [pn_ for (pn_, pt_) in cf.params if '*' not in (pt_ or '')]
            if len(names) != 3 or len(ints) != 2:
                raise AnalysisError('%s: parameters are not three date tuples and two offsets' % cf.loc)
            # the offsets are told apart by name: 'offset' / 'delta'
            for pn_ in ints:
                vals[pn_] = off if 'offset' in pn_.lower() else delta if 'delta' in pn_.lower() else None
                if vals[pn_] is None:
                    raise AnalysisError('%s: parameter %s is neither the offset nor the delta' % (cf.loc, pn_))
            r = X.ccall(cf, [vals[pn_] for (pn_, _pt) in cf.params])
            # which out-parameter is which is read off the suffix it carries afterwards
            if isinstance(r, tuple):
                oc = r
            else:
                outs = [X.read_ctuple(b) for b in box]
                oc = tuple(sorted(outs, key=lambda t_: 'wsu'.index(t_[4]) if t_[4] in ('w', 's', 'u') else 9))
            op = X.pcall(pf.name, {'dt': X.ptuple(2000 + yt, mo, dy, 60 * minutes, suffix), 'offset_seconds': 60 * off, 'delta_seconds': 60 * delta})
            if not (isinstance(op, tuple) and op and op[0] == 'raises'):
                try:
                    op = tuple(sorted((X.read_ptuple(t_) for t_ in op), key=lambda t_: 'wsu'.index(t_[4]) if t_[4] in ('w', 's', 'u') else 9))
                except TypeError:
                    op = ('not three date tuples', repr(op))
            n += 1
            if oc != op:
                diffs.append(('%04d-%02d-%02d %02d:%02d%s is expanded with a UTC offset of %d and a DST offset of %d minutes' % (
                    2000 + yt, mo, dy, minutes // 60, minutes % 60, suffix, off, delta), oc, op))
    _report(X.R, 'expandDateTuple~ZoneSpecifier._expand_date_tuple', cf, pf, n, diffs, 'each suffix, times at both ends of the day, offsets that cross the day, month, year and 29 February')


def match_pair(X):
    from .aeval import AObj
    cf = X.cfn('createMatch')
    pf = X.zs.fn('ZoneSpecifier._create_match')
    n, diffs = 0, []
    sv = X.sv
    # not in the family: an UNTIL that equals a bound in date and time but carries another suffix.  C++ compares date tuples
    # without the suffix and keeps the era's 00:00s, Python compares named tuples with it and takes the bound's 00:00w; the
    # match bounds lie a month outside the year asked for, so the two readings of that instant are not observable (C04 is
    # stated on what the two processors answer, not on the helpers)
    lows = [(1, 2, 28, 8, sv['w']), (1, 2, 1, 0, sv['s']), (1, 3, 1, 1, sv['u']), (1, 3, 2, 0, sv['w']), (0, 12, 31, 95, sv['s']), (1, 4, 1, 0, sv['u'] + 7), (1, 3, 1, 0, sv['w'])]
    highs = [(1, 8, 31, 95, sv['w']), (1, 9, 1, 0, sv['s']), (1, 9, 1, 1, sv['u']), (1, 9, 2, 0, sv['w']), (2, 1, 1, 0, sv['s']), (1, 8, 1, 0, sv['u']), (1, 9, 1, 0, sv['w'] + 3)]
    for c1, c2 in itertools.product(lows, highs):
        b1, p1, g1 = X.era(*c1)
        b2, p2, g2 = X.era(*c2)
        r = X.ccall(cf, [b1, b2, X.cym(1, 3), X.cym(1, 9)])
        if isinstance(r, AObj) and {'startDateTime', 'untilDateTime', 'era'} <= set(r.attrs):
            e_ = r.attrs['era']
            oc = (X.read_ctuple(r.attrs['startDateTime']), X.read_ctuple(r.attrs['untilDateTime']),
                  'the era' if (isinstance(e_, AObj) and e_.attrs.get('mZoneEra') is b2.attrs['mZoneEra']) else 'another era')
        else:
            oc = r if isinstance(r, tuple) else ('not a ZoneMatch', repr(r))
        q = X.pcall(pf.name, {'prev_era': p1, 'zone_era': p2, 'start_ym': X.pym(2001, 3), 'until_ym': X.pym(2001, 9)})
        a_ = getattr(q, 'attrs', None)
        if isinstance(a_, dict) and {'startDateTime', 'untilDateTime', 'zoneEra'} <= set(a_):
            op = (X.read_ptuple(a_['startDateTime']), X.read_ptuple(a_['untilDateTime']), 'the era' if a_['zoneEra'] is p2 else 'another era')
        else:
            op = q if isinstance(q, tuple) else ('not a ZoneMatch', repr(q))
        n += 1
        if oc != op:
            diffs.append(('the previous era ends %s, the era ends %s and the interval is [2001-03, 2001-09)' % (_ends(X, g1), _ends(X, g2)), oc, op))
    _report(X.R, 'createMatch~ZoneSpecifier._create_match', cf, pf, n, diffs, 'both UNTILs before / at / after the bound they are clipped to, every suffix')


def helper_pairs(R, lib, zs, sv):
    X = _Ctx(R, lib, zs, sv)
    compare_era_pair(X)
    overlap_pair(X)
    prior_year_pair(X)
    fuzzy_pair(X)
    expand_pair(X)
    match_pair(X)
    fix_times_pair(X)
    start_until_pair(X)


# ---- the two passes over the sorted transitions -----------------------------------------------------------------------------

def _transition_lists(X, spec):
    """(C++ transitions, Python transitions) for one abstract list: spec = [(offset minutes, delta minutes, (y, M, d, minutes, suffix))],
    every transition belonging to one match that runs until 2003-02-01 00:00w"""
    from .aeval import cxx_object
    from .pyeval import PObj
    cm = cxx_object(X.lib, NSX + 'ZoneMatch')
    cm.attrs['startDateTime'].attrs.update({'yearTiny': -1, 'month': 12, 'day': 1, 'minutes': 0, 'suffix': X.sv['w']})
    usfx = 'wsu'[(len(spec) + abs(spec[-1][0]) // 15 + abs(spec[-1][1]) // 60) % 3]       # the match ends in wall, standard or UTC time
    cm.attrs['untilDateTime'].attrs.update({'yearTiny': 3, 'month': 2, 'day': 1, 'minutes': 0, 'suffix': X.sv[usfx]})
    cts, pts = [], []
    for i, (off, delta, (y, M, d, mins, sfx)) in enumerate(spec):
        t = cxx_object(X.lib, NSX + 'Transition')
        t.oid = 't%d' % i
        t.attrs['match'] = cm
        t.attrs['transitionTime'].attrs.update({'yearTiny': y - 2000, 'month': M, 'day': d, 'minutes': mins, 'suffix': X.sv[sfx]})
        t.attrs['offsetMinutes'] = off
        t.attrs['deltaMinutes'] = delta
        cts.append(t)
        era = PObj(X.zs, 'ZoneEraCooked', {'offsetSeconds': 60 * off, 'rulesDeltaSeconds': 0, 'format': 'X%sT', 'zonePolicy': '-'})
        rule = PObj(X.zs, 'ZoneRuleCooked', {'deltaSeconds': 60 * delta, 'letter': 'D' if delta else 'S'})
        pts.append(PObj(X.zs, 'Transition', {'zoneEra': era, 'zoneRule': rule, 'transitionTime': X.ptuple(y, M, d, 60 * mins, sfx),
                                             'transitionTimeS': None, 'transitionTimeU': None,
                                             'startDateTime': X.ptuple(1999, 12, 1, 0, 'w'), 'untilDateTime': X.ptuple(2003, 2, 1, 0, usfx),
                                             'startEpochSecond': None, 'originalTransitionTime': None, 'abbrev': None, 'isActive': True}))
    return cts, pts


def _walk_pair(X, cname, pname, specs, read_c, read_p, what):
    from .aeval import Ref
    cf = X.cfn(cname)
    pf = X.zs.fn(pname)
    n, diffs = 0, []
    for spec in specs:
        cts, pts = _transition_lists(X, spec)
        ptrs = list(cts)
        args = []
        k = 0
        for (_pn, pt_) in cf.params:
            args.append(Ref(ptrs, 0) if k == 0 else Ref(ptrs, len(ptrs)))
            k += 1
        r = X.ccall(cf, args)
        oc = r if isinstance(r, tuple) else tuple(read_c(t) for t in cts)
        q = X.pcall(pname, {[p for p in pf.params if p not in ('self', 'cls')][0]: pts})
        op = q if isinstance(q, tuple) and q and q[0] == 'raises' else tuple(read_p(t) for t in pts)
        n += 1
        if oc != op:
            diffs.append(('the transitions are %s' % ['%+d/%+d min at %04d-%02d-%02d %02d:%02d%s' % (o_, d_, t_[0], t_[1], t_[2], t_[3] // 60, t_[3] % 60, t_[4]) for o_, d_, t_ in spec], oc, op))
    _report(X.R, '%s~%s' % (cname, pname), cf, pf, n, diffs, what)


def _specs():
    import itertools
    base = [(-480, 0), (-480, 60), (60, 0), (60, 60), (330, 0), (345, 0), (-210, 0), (0, 0), (780, 60)]
    times = [(2001, 3, 11, 120, 'w'), (2001, 1, 1, 0, 'w'), (2001, 11, 4, 120, 'w'), (2001, 12, 31, 1440, 'w'), (2002, 3, 1, 0, 'w'), (2000, 2, 29, 1380, 'w')]
    out = []
    for a, b in itertools.permutations(base, 2):
        for t1, t2 in (((2000, 12, 1, 0, 'w'), times[0]), ((2000, 12, 1, 0, 'w'), times[1]), (times[1], times[2]), (times[2], times[3]), (times[5], times[4])):
            out.append([(a[0], a[1], t1), (b[0], b[1], t2)])
    for a, b, c in itertools.permutations(base[:5], 3):
        out.append([(a[0], a[1], (2000, 12, 1, 0, 'w')), (b[0], b[1], times[0]), (c[0], c[1], times[2])])
    out.append([(60, 0, (2000, 12, 1, 0, 'w'))])
    return out


def start_until_pair(X):
    """generateStartUntilTimes / _generate_start_until_times on lists of one to three transitions whose offsets differ in every
    direction and whose times sit at midnight, at 24:00, on New Year and on 29 February: start time, until time and start epoch
    seconds of every transition"""
    def rc(t):
        a = t.attrs
        return (X.read_ctuple(a['startDateTime']), X.read_ctuple(a['untilDateTime']), a['startEpochSeconds'])

    def rp(t):
        a = t.attrs
        return (X.read_ptuple(a['startDateTime']), X.read_ptuple(a['untilDateTime']), a['startEpochSecond'])
    _walk_pair(X, 'generateStartUntilTimes', 'ZoneSpecifier._generate_start_until_times', _specs(), rc, rp,
               'one to three transitions, offsets changing in every direction, times at the edges of day, month and year')


def fix_times_pair(X):
    """fixTransitionTimes / _fix_transition_times: the w / s / u forms of every transition time, taken with the offsets of the
    transition before it; transition times carry every suffix"""
    def rc(t):
        a = t.attrs
        return tuple(X.read_ctuple(a[k]) for k in ('transitionTime', 'transitionTimeS', 'transitionTimeU'))

    def rp(t):
        a = t.attrs
        return tuple(X.read_ptuple(a[k]) for k in ('transitionTime', 'transitionTimeS', 'transitionTimeU'))
    specs = []
    for sp in _specs()[::3]:
        for sfx in 'wsu':
            specs.append([(o_, d_, (t_[0], t_[1], t_[2], t_[3], sfx if i else 'w')) for i, (o_, d_, t_) in enumerate(sp)])
    _walk_pair(X, 'fixTransitionTimes', 'ZoneSpecifier._fix_transition_times', specs, rc, rp, 'transition times with every suffix after a transition with other offsets')


# ---- the abbreviation of a transition ------------------------------------------------------------------------------------------

def _cstr(s):
    return [ord(c) for c in s] + [0]


def _cstring_ops():
    """the C string functions createAbbreviation uses, on buffers that are lists of character codes (a pointer is the list or
    a Ref into it); a read or write outside a buffer raises IndexError"""
    from .aeval import Ref

    def cell(p, i=0):
        return (p.box, p.key + i) if isinstance(p, Ref) else (p, i)

    def get(p, i):
        b, k = cell(p, i)
        if k < 0:
            raise IndexError('negative subscript')
        return b[k]

    def put(p, i, v):
        b, k = cell(p, i)
        if k < 0:
            raise IndexError('negative subscript')
        b[k] = v

    def strchr(ev, recv, a):
        s, ch = a
        i = 0
        while True:
            c = get(s, i)
            if c == ch:
                b, k = cell(s, i)
                return Ref(b, k)
            if c == 0:
                return None
            i += 1

    def strlen(ev, recv, a):
        i = 0
        while get(a[0], i) != 0:
            i += 1
        return i

    def strncpy(ev, recv, a):
        d, s, n = a
        i = 0
        while i < n and get(s, i) != 0:
            put(d, i, get(s, i))
            i += 1
        while i < n:
            put(d, i, 0)
            i += 1
        return d

    def memcpy(ev, recv, a):
        d, s, n = a
        for i in range(n):
            put(d, i, get(s, i))
        return d
    out = {}
    for name, f in (('strchr', strchr), ('strlen', strlen), ('strncpy', strncpy), ('memcpy', memcpy)):
        out[name] = f
        out['::' + name] = f
    out['ace_time::logging::printf'] = lambda e_, r_, a_: None
    return out


def abbrev_pair(R, lib, zs):
    """R7: ExtendedZoneProcessor::createAbbreviation (through copyAndReplace and the C string functions, on character buffers
    with guard cells) against ZoneSpecifier._calc_abbrev, interpreted on every combination of a FORMAT ("A/B", "X%sY", "%s", plain),
    a DST shift (negative, zero, positive - the argument goes through the parameter's own type) and a LETTER (none, '-', one
    character, several): the abbreviation must be the same text on both sides."""
    from .aeval import AEval, CxxModule, Raised
    from .pyeval import PyEval, PObj, Raised as PRaised
    from .rules_C04 import XP
    R.rule('R7', 'createAbbreviation and _calc_abbrev give the same abbreviation for every FORMAT kind x DST shift x LETTER (interpreted)', floor=2)
    cf = lib.fn(XP + 'createAbbreviation')
    pf = zs.fn('ZoneSpecifier._calc_abbrev')
    c = 'ExtendedZoneProcessor::createAbbreviation~ZoneSpecifier._calc_abbrev'
    mod = CxxModule(lib, ['ace_time::'])
    intr = _cstring_ops()
    size = lib.const('ace_time::extended::Transition::kAbbrevSize')
    if len(cf.params) != 5:
        raise AnalysisError('anchor moved: %s is expected to take (dest, destSize, format, deltaMinutes, letterString)' % cf.name)
    formats = [('STD/DST', 'STD/DST'), ('+00/+01', '+00/+01'), ('E%sT', 'E%T'), ('%s', '%'), ('GMT', 'GMT'), ('A/B', 'A/B')]
    deltas = [-3600, -1800, 0, 1800, 3600, 7200]
    letters = [(None, None), ('-', ''), ('D', 'D'), ('S', 'S'), ('DD', 'DD'), ('WAT', 'WAT')]
    pev = PyEval(R.cfg, max_steps=2000000)
    n, diffs = 0, []
    G = 0x7f
    for (pfmt, cfmt), ds, (plet, clet) in itertools.product(formats, deltas, letters):
        if plet is None and '%' in pfmt:
            continue            # the compiler refuses a FORMAT with %s under a fixed RULES offset (C03-R10, feature source)
        # Python: a transition of an era with this FORMAT; with a rule (its SAVE and LETTER) or without (fixed RULES offset)
        era = PObj(zs, 'ZoneEraCooked', {'format': pfmt, 'rulesDeltaSeconds': ds if plet is None else 0, 'offsetSeconds': 3600})
        rule = None if plet is None else PObj(zs, 'ZoneRuleCooked', {'deltaSeconds': ds, 'letter': plet})
        ok_, slots = pev.class_attr(zs, 'Transition', '__slots__')
        tr = PObj(zs, 'Transition', dict({s_: None for s_ in (slots or [])}, zoneEra=era, zoneRule=rule))
        pev.steps = 0
        try:
            pev.call(zs, 'ZoneSpecifier._calc_abbrev', [[tr]])
            pgot = tr.attrs.get('abbrev')
        except PRaised as x_:
            pgot = ('raises', x_.what)
        dest = [G] * size + [G, G]
        try:
            AEval(module=mod, intrinsics=intr, typed=True, max_steps=200000).call_function(
                cf.name, [dest, size, _cstr(cfmt), ds // 60, None if clet is None else _cstr(clet)], chosen=CxxModule._Fn(cf))
            if dest[size:] != [G, G]:
                cgot = ('writes past the buffer', None)
            elif 0 not in dest[:size]:
                cgot = ('no terminating NUL', None)
            else:
                cgot = ''.join(chr(x) for x in dest[:dest.index(0)])
        except Raised as x_:
            cgot = ('raises', x_.what)
        except IndexError as x_:
            cgot = ('reads or writes outside a buffer', str(x_))
        n += 1
        want = pgot[:size - 1] if isinstance(pgot, str) else pgot
        if cgot != want:
            diffs.append(('FORMAT %r, DST shift %d s, %s' % (pfmt, ds, 'no rule (fixed RULES offset)' if plet is None else 'LETTER %r' % plet), repr(cgot), repr(pgot)))
    R.instance('R7', c, cf.loc, '%d interpreted cases (FORMAT x DST shift x LETTER)' % n, n=2)
    if diffs:
        d = diffs[0]
        R.violation('R7', c, cf.loc, 'the two implementations differ for %s: C++ -> %s, Python -> %s (%d of %d cases differ)' % (d[0], d[1], d[2], len(diffs), n),
                    detail=['Python side: %s' % pf.loc])

