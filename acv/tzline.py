"""Grammar of the recorded TZ source lines ("// Rule ..." and "// <STDOFF> <RULES> <FORMAT> [UNTIL]")
that the generators copy beside every table entry.  External TZ syntax, implemented in the checker."""
import datetime
import re

from .common import AnalysisError

MONTHS = {m: i + 1 for i, m in enumerate(['Jan', 'Feb', 'Mar', 'Apr', 'May', 'Jun', 'Jul', 'Aug', 'Sep', 'Oct', 'Nov', 'Dec'])}
# isoweekday numbering, as used by the tables (Mon=1 .. Sun=7)
DOWS = {'Mon': 1, 'Tue': 2, 'Wed': 3, 'Thu': 4, 'Fri': 5, 'Sat': 6, 'Sun': 7}


class LineError(Exception):
    pass


def parse_hms(s):
    """'h', 'h:mm', 'h:mm:ss', optional leading '-', -> seconds."""
    m = re.match(r'^(-?)(\d+)(?::(\d+))?(?::(\d+))?$', s)
    if not m:
        raise LineError('bad time %r' % s)
    v = int(m.group(2)) * 3600 + int(m.group(3) or 0) * 60 + int(m.group(4) or 0)
    return -v if m.group(1) else v


def parse_at(s):
    """AT / UNTIL time with optional suffix -> (seconds, suffix in 'wsu')."""
    if s == '-':
        return 0, 'w'
    suf = 'w'
    if s[-1] in 'wsugz':
        suf = {'w': 'w', 's': 's', 'u': 'u', 'g': 'u', 'z': 'u'}[s[-1]]
        s = s[:-1]
    return parse_hms(s), suf


def parse_save(s):
    if s == '-':
        return 0
    if s[-1] in 'sd':
        s = s[:-1]
    return parse_hms(s)


def parse_on(s):
    """ON column -> (dayOfWeek, dayOfMonth) in the table convention:
    dd -> (0, dd); lastXxx -> (dow, 0); Xxx>=dd -> (dow, dd); Xxx<=dd -> (dow, -dd)."""
    if re.match(r'^\d+$', s):
        return 0, int(s)
    m = re.match(r'^last([A-Z][a-z]{2})$', s)
    if m and m.group(1) in DOWS:
        return DOWS[m.group(1)], 0
    m = re.match(r'^([A-Z][a-z]{2})(>=|<=)(\d+)$', s)
    if m and m.group(1) in DOWS:
        d = int(m.group(3))
        return DOWS[m.group(1)], d if m.group(2) == '>=' else -d
    raise LineError('bad ON expression %r' % s)


def parse_rule(comment):
    """-> dict(anchor, name, from_year, to_year, month, dow, dom, at_seconds, at_suffix, save_seconds, letter)."""
    if comment is None:
        raise LineError('no recorded line')
    t = comment.split()
    anchor = False
    if t[:1] == ['Anchor:']:
        anchor = True
        t = t[1:]
    if len(t) != 10 or t[0] != 'Rule':
        raise LineError('not a Rule line: %r' % comment)
    _, name, frm, to, typ, mon, on, at, save, letter = t
    try:
        from_year = int(frm)
    except ValueError:
        raise LineError('bad FROM %r' % frm)
    if to == 'only':
        to_year = from_year
    elif to == 'max':
        to_year = 9999
    else:
        try:
            to_year = int(to)
        except ValueError:
            raise LineError('bad TO %r' % to)
    if mon not in MONTHS:
        raise LineError('bad month %r' % mon)
    dow, dom = parse_on(on)
    at_seconds, at_suffix = parse_at(at)
    return dict(anchor=anchor, name=name, from_year=from_year, to_year=to_year, month=MONTHS[mon], dow=dow, dom=dom,
                at_seconds=at_seconds, at_suffix=at_suffix, save_seconds=parse_save(save), letter=letter)


def days_in_month(y, m):
    if m == 12:
        return 31
    return (datetime.date(y, m + 1, 1) - datetime.date(y, m, 1)).days


def resolve_on(year, month, dow, dom):
    """Calendar resolution of an ON expression (the checker's own oracle: proleptic Gregorian)."""
    if dow == 0:
        return month, dom
    if dom == 0:
        d = datetime.date(year, month, days_in_month(year, month))
        while d.isoweekday() != dow:
            d -= datetime.timedelta(days=1)
        return d.month, d.day
    if dom > 0:
        d = datetime.date(year, month, dom)
        while d.isoweekday() != dow:
            d += datetime.timedelta(days=1)
        return d.month, d.day
    d = datetime.date(year, month, -dom)
    while d.isoweekday() != dow:
        d -= datetime.timedelta(days=1)
    return d.month, d.day


def parse_era(comment):
    """-> dict(offset_seconds, rules ('-' | ('fixed', seconds) | ('policy', name)), format,
               until_year|None, until_month, until_day, until_seconds, until_suffix)."""
    if comment is None:
        raise LineError('no recorded line')
    t = comment.split()
    if len(t) < 3 or len(t) > 7:
        raise LineError('not an era line: %r' % comment)
    off = parse_hms(t[0])
    r = t[1]
    if r == '-':
        rules = '-'
    elif re.match(r'^-?\d+(:\d+)*[sd]?$', r):
        rules = ('fixed', parse_save(r))
    else:
        rules = ('policy', r)
    fmt = t[2]
    until_year = None
    until_month, until_day, until_seconds, until_suffix = 1, 1, 0, 'w'
    if len(t) > 3:
        try:
            until_year = int(t[3])
        except ValueError:
            raise LineError('bad UNTIL year %r' % t[3])
        if len(t) > 4:
            if t[4] not in MONTHS:
                raise LineError('bad UNTIL month %r' % t[4])
            until_month = MONTHS[t[4]]
        if len(t) > 5:
            dow, dom = parse_on(t[5])
            m2, d2 = resolve_on(until_year, until_month, dow, dom)
            until_month, until_day = m2, d2
        if len(t) > 6:
            until_seconds, until_suffix = parse_at(t[6])
    return dict(offset_seconds=off, rules=rules, format=fmt, until_year=until_year, until_month=until_month,
                until_day=until_day, until_seconds=until_seconds, until_suffix=until_suffix)


def trunc_to(a, b):
    """truncate a towards zero to a multiple of b."""
    q = abs(a) // b
    return b * (q if a >= 0 else -q)
