"""C12 - zone tables are a faithful encoding.
R1: every shipped rule/era/info entry, read through the real accessor bodies of Brokers.h by constant
    propagation, equals its recorded TZ line (decides clause 2 of the statement).
R2: accessor <-> field <-> read-width table.
R3: sweep round trip (acv/pipeline.py, rules_C12b.py): the compiler is interpreted on TZ source text that sweeps the encoded
    quantities, what it writes is parsed and read back through the same accessors; every emitted entry equals its source line.
R5: every constant the generator writes fits the member it initialises."""
import ast

from .common import AnalysisError, Report
from . import cxx, tables, tzline, py
from .ceval import CEval, Obj, Unknown
from .cxx import int_type, wrap
from .tables import Ref
from .rules_C11 import normalize_name

META = {
    'explanation': 'E-TAB + constant propagation: each of the ~900 rule and ~950 era entries of zonedb/zonedbx is read '
                   'through the IR of the Brokers.h accessors (timeCodeToMinutes, toSuffix, toDeltaMinutes, '
                   'toOffsetMinutes, ...) with the entry constants substituted, and compared with the recorded '
                   'Rule/era line parsed by the TZ grammar; accessor/field/width table. E-SEQ sweep round trip: the compiler '
                   '(Extractor, Transformer, TzDbCollector, ArduinoGenerator) is interpreted over its Python ast on TZ source text '
                   'whose lines sweep STDOFF, SAVE, fixed RULES offsets, AT and UNTIL times with every suffix, values on and off the '
                   'granularity and just inside / outside the capacity of each field; the C++ sources it writes are parsed by clang '
                   'and every entry is read back through the same accessor IR and compared with its source line (thorough tier: each '
                   'field over its whole admissible range, both scopes, with and without --strict; the same table and accessor rules '
                   'on the second preprocessor configuration ACE_TIME_USE_PROGMEM 0).',
    'decided': 'shipped tables == recorded lines as seen through the library accessors (clause 2); every accessor reads '
               'the field it is named for with the width of that field; for every era / rule of the sweeps that the transformer admits, '
               'decode(encode(value)) == value at the granularity the scope keeps, whatever templates, masks, shifts and helpers either '
               'side uses; a value outside the capacity of its field is not admitted (else it reads back wrong and is reported); every '
               'constant written fits its member (known finding: extended deltaCode for minute remainders >= 8 does not fit int8_t)',
    'not_decided': 'values outside the sweeps (the quick sweep is a sample of each field, the thorough sweeps are exhaustive per field, not over '
                   'the product of all fields)',
    'assumptions': ['clang 14 parser', 'CPython ast', 'shim pgm_read_* are identity loads of the stated width',
                    'TZ line grammar in acv/tzline.py; calendar resolution of UNTIL day expressions by datetime',
                    'the interpreted compiler is driven in the order tzcompiler.main() drives it (glue replicated in acv/pipeline.py)'],
}

RULE_ACCESSORS = ['fromYearTiny', 'toYearTiny', 'inMonth', 'onDayOfWeek', 'onDayOfMonth', 'atTimeMinutes',
                  'atTimeSuffix', 'deltaMinutes', 'letter']
ERA_ACCESSORS = ['offsetMinutes', 'deltaMinutes', 'untilYearTiny', 'untilMonth', 'untilDay', 'untilTimeMinutes',
                 'untilTimeSuffix']
EPOCH_YEAR = 2000


def typed_obj(tu, struct_q, cells):
    f = {}
    for name, ty, _n in tu.fields(struct_q):
        v = cells[name]
        it = int_type(ty)
        f[name] = wrap(v, *it) if (it and isinstance(v, int)) else v
    return Obj(f, struct_q)


def broker_field(tu, broker_q):
    fs = tu.fields(broker_q)
    ptrs = [n for n, t, _ in fs if t and t.rstrip().endswith('*')]
    if len(ptrs) != 1:
        raise AnalysisError('anchor moved: %s is expected to wrap exactly one pointer, has %r' % (broker_q, [n for n, _, _ in fs]))
    return ptrs[0]


def run(cfg):
    R = Report('C12', cfg)
    lib = cxx.load_lib(cfg)
    R.analysed['translation_units'] = ['tu/lib.cpp', 'tu/tables_zonedb.cpp', 'tu/tables_zonedbx.cpp']
    R.rule('R1-rule', 'ZoneRule entry read through ZoneRuleBroker equals its recorded Rule line', floor=850)
    R.rule('R1-era', 'ZoneEra entry read through ZoneEraBroker equals its recorded era line', floor=900)
    R.rule('R1-info', 'ZoneInfo/ZonePolicy counts and references describe the arrays beside them', floor=700)
    for db in ('zonedb', 'zonedbx'):
        T = tables.CxxTables(cfg, db)
        check_db(cfg, R, lib, T)
    accessor_rules(cfg, R, lib)
    from . import rules_C12b
    rules_C12b.encoder_rules(cfg, R, lib)
    if cfg.tier == 'thorough':
        alt_config(cfg, R)
    return R


def alt_config(cfg, R):
    """Second preprocessor configuration: compat.h hard-wires ACE_TIME_USE_PROGMEM 1, so the non-PROGMEM twins of every
    broker accessor are dead in the shipped build - but they are what runs as soon as that one line is flipped.  The table
    rules (R1-*) and the accessor rule (R2) are run again on a private copy of src/ with the macro set to 0."""
    import os
    import re
    import shutil
    import tempfile
    from .common import Config
    R.rule('R-alt', 'with ACE_TIME_USE_PROGMEM 0 the twin accessors read every shipped entry as its recorded line and name the right fields', floor=2500)
    tmp = tempfile.mkdtemp(prefix='acv-c12alt-')
    try:
        shutil.copytree(os.path.join(cfg.repo, 'src'), os.path.join(tmp, 'src'), symlinks=True)
        p = os.path.join(tmp, 'src', 'ace_time', 'common', 'compat.h')
        text = open(p).read()
        new, n = re.subn(r'(#define\s+ACE_TIME_USE_PROGMEM\s+)1\b', r'\g<1>0', text)
        if n != 1:
            raise AnalysisError('compat.h: expected exactly one "#define ACE_TIME_USE_PROGMEM 1" (anchor moved)')
        open(p, 'w').write(new)
        cfg2 = Config(repo=tmp, tier='quick', seed=cfg.seed, jobs=cfg.jobs)
        R2 = Report('C12', cfg2)
        R2.rule('R1-rule', '', floor=0)
        R2.rule('R1-era', '', floor=0)
        R2.rule('R1-info', '', floor=0)
        lib2 = cxx.load_lib(cfg2)
        for db in ('zonedb', 'zonedbx'):
            check_db(cfg2, R2, lib2, tables.CxxTables(cfg2, db))
        accessor_rules(cfg2, R2, lib2)
        total = sum(r['instances'] for r in R2.rules.values())
        R.instance('R-alt', 'ACE_TIME_USE_PROGMEM=0', 'src/ace_time/common/compat.h', '%d obligation sites re-examined' % total, n=total)
        for f in R2.findings:
            R.violation('R-alt', '%s[PROGMEM=0]' % f.construct, f.loc, '[%s, twin accessor] %s' % (f.rule, f.msg), f.detail)
    finally:
        shutil.rmtree(tmp, ignore_errors=True)


def suffix_consts(lib, scope):
    out = {}
    for s in 'WSU':
        out[s.lower()] = lib.const('ace_time::%s::ZoneContext::kSuffix%s' % (scope, s))
    return out


class EntryReader:
    """reads one table entry through the IR of the broker accessors (acv/ceval.py: typed wrap at every cast and read width)"""

    def __init__(self, lib, scope):
        self.lib, self.scope = lib, scope
        self.ns = 'ace_time::%s::' % scope
        self.ev = CEval(lib)
        rb_q, eb_q = self.ns + 'ZoneRuleBroker', self.ns + 'ZoneEraBroker'
        self.rfield, self.efield = broker_field(lib, rb_q), broker_field(lib, eb_q)
        self.racc = {a: lib.fn('%s::%s' % (rb_q, a)) for a in RULE_ACCESSORS}
        self.eacc = {a: lib.fn('%s::%s' % (eb_q, a)) for a in ERA_ACCESSORS}

    def _read(self, accs, field, obj):
        out = {}
        this = Obj({field: obj})
        for a, f in accs.items():
            try:
                out[a] = self.ev.call(f, this, ())
            except Unknown as e:
                raise AnalysisError('%s: accessor %s cannot be folded on table constants (%s)' % (f.loc, f.name, e))
        return out

    def rule(self, cells):
        return self._read(self.racc, self.rfield, typed_obj(self.lib, self.ns + 'ZoneRule', cells))

    def era(self, cells):
        return self._read(self.eacc, self.efield, typed_obj(self.lib, self.ns + 'ZoneEra', cells))


def transition_letter(lib, cells, letters):
    """extended::Transition::letter() interpreted (E-SEQ, typed, the brokers through their bodies) on a transition whose rule has
    the given table cells and whose era refers to a policy with the given letters array -> the string it points to, or a
    description of what came back"""
    from .aeval import AEval, AObj, CxxModule, Raised, Ref, cxx_object
    NSX = 'ace_time::extended::'
    f = lib.fn(NSX + 'Transition::letter')
    rule = cxx_object(lib, NSX + 'ZoneRule')
    rule.attrs.update({k: v for k, v in dict(cells).items() if isinstance(v, int) and k in rule.attrs})
    strings = [[ord(ch) for ch in s] + [0] for s in letters]
    pol = cxx_object(lib, NSX + 'ZonePolicy')
    pol.attrs.update({'rules': [rule], 'letters': strings, 'numRules': 1, 'numLetters': len(strings)})
    era = cxx_object(lib, NSX + 'ZoneEra')
    era.attrs['zonePolicy'] = pol
    tr = cxx_object(lib, NSX + 'Transition')
    match = cxx_object(lib, NSX + 'ZoneMatch')
    try:
        tr.attrs['rule'].attrs[broker_field(lib, NSX + 'ZoneRuleBroker')] = rule
        match.attrs['era'].attrs[broker_field(lib, NSX + 'ZoneEraBroker')] = era
    except (KeyError, AttributeError) as x_:
        raise AnalysisError('%s: a Transition no longer holds a rule broker and a match with an era broker (%r)' % (f.loc, x_))
    tr.attrs['match'] = match
    tr.attrs['letterBuf'] = [0, 0]
    try:
        r = AEval(module=CxxModule(lib, ['ace_time::']), typed=True, max_steps=20000).call_function(f.name, [], recv=tr, chosen=CxxModule._Fn(f))
    except Raised as x_:
        return 'raises %s' % x_.what
    except IndexError:
        return 'a read outside the letters array'
    if isinstance(r, Ref) and isinstance(r.box, list):
        r = r.box[r.key:]
    if isinstance(r, list) and 0 in r:
        return ''.join(chr(c_) for c_ in r[:r.index(0)])
    return 'null' if r is None else repr(r)


def check_db(cfg, R, lib, T):
    scope = T.scope
    ns = 'ace_time::%s::' % scope
    rd = EntryReader(lib, scope)
    ev = rd.ev
    suf = suffix_consts(lib, scope)
    off_gran = 900 if scope == 'basic' else 60
    delta_gran = 900             # SAVE and fixed RULES offsets are held in quarter hours in both scopes
    at_gran = 60

    # which letters array belongs to a rules array
    letters_of = {}
    for pname, pol in T.policies.items():
        r = pol['rules']
        if isinstance(r, Ref):
            letters_of[r.name] = (pname, T.policy_letters(pname))
    # ---- rules
    for arr, entries in T.rules.items():
        for e in entries:
            c = '%s::%s[%d]' % (T.db, arr, e.index)
            R.instance('R1-rule', c, e.loc, e.comment if e.index == 0 else None)
            try:
                ln = tzline.parse_rule(e.comment)
            except tzline.LineError as x:
                R.violation('R1-rule', c, e.loc, 'recorded line is not a Rule line (%s)' % x)
                continue
            got = rd.rule(e.cells)
            if ln['anchor']:
                want = dict(fromYearTiny=-127, toYearTiny=-127, inMonth=1, onDayOfWeek=0, onDayOfMonth=1,
                            atTimeMinutes=0, atTimeSuffix=suf['w'], deltaMinutes=0)
            else:
                want = dict(
                    fromYearTiny=ln['from_year'] - EPOCH_YEAR,
                    toYearTiny=126 if ln['to_year'] == 9999 else ln['to_year'] - EPOCH_YEAR,
                    inMonth=ln['month'], onDayOfWeek=ln['dow'], onDayOfMonth=ln['dom'],
                    atTimeMinutes=tzline.trunc_to(ln['at_seconds'], at_gran) // 60,
                    atTimeSuffix=suf[ln['at_suffix']],
                    deltaMinutes=_sdiv(tzline.trunc_to(ln['save_seconds'], delta_gran), 60))
            bad = ['%s: accessor gives %r, recorded line says %r' % (k, got[k], want[k]) for k in want if got[k] != want[k]]
            # letter
            lt = ln['letter']
            gl = got['letter']
            if len(lt) == 1:
                if gl != ord(lt):
                    bad.append('letter: accessor gives %r, recorded line says %r (%d)' % (gl, lt, ord(lt)))
            else:
                pol, letters = letters_of.get(arr, (None, None))
                if letters is None or not (0 <= gl < len(letters)) or letters[gl] != lt:
                    bad.append('letter: index %r does not select %r in the letters array of %s' % (gl, lt, pol))
                if gl >= 32:
                    bad.append('letter: index %d collides with printable characters' % gl)
                elif scope == 'extended' and letters is not None:
                    # what the processor makes of the index: extended::Transition::letter() interpreted on a transition of this rule
                    s_ = transition_letter(lib, e.cells, letters)
                    if s_ != lt:
                        bad.append('letter: extended::Transition::letter() answers %r for the index %d, the recorded line says %r' % (s_, gl, lt))
            if bad:
                R.violation('R1-rule', c, e.loc, '; '.join(bad), detail=['line: ' + (e.comment or '')])
    # ---- eras
    for arr, entries in T.eras.items():
        for e in entries:
            c = '%s::%s[%d]' % (T.db, arr, e.index)
            R.instance('R1-era', c, e.loc, e.comment if e.index == 0 else None)
            try:
                ln = tzline.parse_era(e.comment)
            except tzline.LineError as x:
                R.violation('R1-era', c, e.loc, 'recorded line is not an era line (%s)' % x)
                continue
            got = rd.era(e.cells)
            fixed = ln['rules'][1] if isinstance(ln['rules'], tuple) and ln['rules'][0] == 'fixed' else 0
            want = dict(
                offsetMinutes=_sdiv(tzline.trunc_to(ln['offset_seconds'], off_gran), 60),
                deltaMinutes=_sdiv(tzline.trunc_to(fixed, delta_gran), 60),
                untilYearTiny=127 if ln['until_year'] is None else ln['until_year'] - EPOCH_YEAR,
                untilMonth=ln['until_month'], untilDay=ln['until_day'],
                untilTimeMinutes=tzline.trunc_to(ln['until_seconds'], at_gran) // 60,
                untilTimeSuffix=suf[ln['until_suffix']])
            bad = ['%s: accessor gives %r, recorded line says %r' % (k, got[k], want[k]) for k in want if got[k] != want[k]]
            pol = e['zonePolicy']
            if isinstance(ln['rules'], tuple) and ln['rules'][0] == 'policy':
                wantp = Ref('kPolicy' + normalize_name(ln['rules'][1]))
                if pol != wantp:
                    bad.append('zonePolicy: entry references %r, recorded line says %s' % (pol, wantp.name))
                elif wantp.name not in T.policies:
                    bad.append('zonePolicy: %s is not defined in %s' % (wantp.name, T.db))
            elif pol is not None:
                bad.append('zonePolicy: entry references %r, recorded line has no named rules' % (pol,))
            wf = ln['format'].replace('%s', '%')
            if e['format'] != wf:
                bad.append('format: entry has %r, recorded line says %r' % (e['format'], wf))
            if bad:
                R.violation('R1-era', c, e.loc, '; '.join(bad), detail=['line: ' + (e.comment or '')])
    # ---- infos / policies: counts and references
    for short, info in T.infos.items():
        c = '%s::%s' % (T.db, short)
        R.instance('R1-info', c, info.loc)
        eras = info['eras']
        if not isinstance(eras, Ref) or eras.name not in T.eras:
            R.violation('R1-info', c, info.loc, 'eras does not reference an era array')
            continue
        n = len(T.eras[eras.name])
        if info['numEras'] != n or T.eras_len[eras.name] != n:
            R.violation('R1-info', c, info.loc, 'numEras=%r but the era array has %d entries' % (info['numEras'], n))
        if info['zoneContext'] != Ref('kZoneContext'):
            R.violation('R1-info', c, info.loc, 'zoneContext is %r, not &kZoneContext' % (info['zoneContext'],))
        if eras.name != 'kZoneEra' + short[len('kZone'):]:
            R.violation('R1-info', c, info.loc, 'zone uses era array %s of another zone' % eras.name)
    for pname, pol in T.policies.items():
        c = '%s::%s' % (T.db, pname)
        R.instance('R1-info', c, pol.loc)
        r = pol['rules']
        if not isinstance(r, Ref) or r.name not in T.rules:
            R.violation('R1-info', c, pol.loc, 'rules does not reference a rule array')
            continue
        n = len(T.rules[r.name])
        if pol['numRules'] != n:
            R.violation('R1-info', c, pol.loc, 'numRules=%r but the rule array has %d entries' % (pol['numRules'], n))
        if r.name != 'kZoneRules' + pname[len('kPolicy'):]:
            R.violation('R1-info', c, pol.loc, 'policy uses rule array %s of another policy' % r.name)
        letters = T.policy_letters(pname)
        nl = len(letters) if letters is not None else 0
        if pol['numLetters'] != nl:
            R.violation('R1-info', c, pol.loc, 'numLetters=%r but the letters array has %d entries' % (pol['numLetters'], nl))
        # every rule of the policy carries the policy's name in its recorded line
        for e in T.rules[r.name]:
            try:
                ln = tzline.parse_rule(e.comment)
            except tzline.LineError:
                continue
            if 'kPolicy' + normalize_name(ln['name']) != pname:
                R.violation('R1-info', c, e.loc, 'rule %d is recorded as a rule of %r' % (e.index, ln['name']))
    R.analysed.setdefault('width_reads', 0)
    R.analysed['width_reads'] += len(ev.width_events)


def _sdiv(a, b):
    q = abs(a) // b
    return q if a >= 0 else -q


# ---------------------------------------------------------------------------------------
# R2: accessor tables
# ---------------------------------------------------------------------------------------

ACCESSOR_FIELDS = {
    'ZoneRuleBroker': {'fromYearTiny': ['fromYearTiny'], 'toYearTiny': ['toYearTiny'], 'inMonth': ['inMonth'],
                       'onDayOfWeek': ['onDayOfWeek'], 'onDayOfMonth': ['onDayOfMonth'],
                       'atTimeMinutes': ['atTimeCode', 'atTimeModifier'], 'atTimeSuffix': ['atTimeModifier'],
                       'deltaMinutes': ['deltaCode'], 'letter': ['letter']},
    'ZonePolicyBroker': {'numRules': ['numRules'], 'rule': ['rules'], 'numLetters': ['numLetters'], 'letter': ['letters']},
    'ZoneEraBroker': {'zonePolicy': ['zonePolicy'], 'format': ['format'],
                      'untilYearTiny': ['untilYearTiny'], 'untilMonth': ['untilMonth'], 'untilDay': ['untilDay'],
                      'untilTimeMinutes': ['untilTimeCode', 'untilTimeModifier'], 'untilTimeSuffix': ['untilTimeModifier']},
    'ZoneInfoBroker': {'name': ['name'], 'zoneId': ['zoneId'], 'startYear': ['zoneContext'], 'untilYear': ['zoneContext'],
                       'numEras': ['numEras'], 'era': ['eras']},
}
ERA_SCOPE_FIELDS = {
    'basic': {'offsetMinutes': ['offsetCode'], 'deltaMinutes': ['deltaCode']},
    'extended': {'offsetMinutes': ['offsetCode', 'deltaCode'], 'deltaMinutes': ['deltaCode']},
}


def field_reads(tu, fn, depth=0):
    """[(field name, read type or None, field type, loc)] for every struct field read in fn (inlining helpers'
    parameters is not needed: the reads happen in the accessor itself)."""
    from .ir import all_exprs
    out = []
    for e in all_exprs(fn.body):
        if e.k == 'deref' and e.a[0].k == 'ptrcast' and e.a[0].a[1].k == 'addr':
            tgt = e.a[0].a[1].a[0]
            if tgt.k == 'field':
                out.append((tgt.a[1], _pointee_ty(e.a[0].a[0]), tgt.ty, e.loc, True))
        elif e.k == 'field' and e.a[0].k == 'field' and e.a[0].a[0].k == 'this':
            out.append((e.a[1], None, e.ty, e.loc, False))
    # drop the plain field node that sits inside a pgm read
    pgm = {(f, loc) for f, rt, ft, loc, is_pgm in out if is_pgm}
    return [(f, rt, ft, loc) for f, rt, ft, loc, is_pgm in out if is_pgm or (f, loc) not in pgm]


def _pointee_ty(t):
    from .ceval import _pointee
    return _pointee(t)


def accessor_rules(cfg, R, lib):
    R.rule('R2', 'each broker accessor reads exactly the field(s) it is named for, with the width of that field', floor=56)
    for scope in ('basic', 'extended'):
        for broker, table in ACCESSOR_FIELDS.items():
            t = dict(table)
            if broker == 'ZoneEraBroker':
                t.update(ERA_SCOPE_FIELDS[scope])
            q = 'ace_time::%s::%s' % (scope, broker)
            for acc, fields in t.items():
                f = lib.fn('%s::%s' % (q, acc))
                c = '%s::%s' % (q, acc)
                reads = field_reads(lib, f)
                R.instance('R2', c, f.loc, 'reads ' + ', '.join(r[0] for r in reads))
                got = sorted({r[0] for r in reads})
                if got != sorted(fields):
                    R.violation('R2', c, f.loc, 'accessor reads field(s) %s, expected %s' % (got, sorted(fields)))
                    continue
                for fname, rt, ft, loc in reads:
                    if rt is None:
                        continue
                    a, b = int_type(rt), int_type(ft)
                    if b is not None:
                        if a is None or a[0] != b[0]:
                            R.violation('R2', c, loc, 'field %s (%s) is read through a %s load' % (fname, ft, rt))
                    else:
                        if a is not None:
                            R.violation('R2', c, loc, 'pointer field %s is read through an integer load (%s)' % (fname, rt))


SELFTEST = [
    dict(id='cell-atTimeCode-changed', file='src/ace_time/zonedb/zone_policies.cpp', regex=True, unique=False, nth=0,
         find=r'8 /\*atTimeCode\*/', replace='9 /*atTimeCode*/', rule='R1-rule', construct='kZoneRulesAN[0]'),
    dict(id='decoder-mask-0x07', file='src/ace_time/internal/Brokers.h', find='return code * (uint16_t) 15 + (modifier & 0x0f);',
         replace='return code * (uint16_t) 15 + (modifier & 0x07);', rule='R3'),
    dict(id='decoder-delta-bias-3', file='src/ace_time/internal/Brokers.h',
         find='return ((int8_t)((uint8_t)deltaCode & 0x0f) - 4) * 15;', replace='return ((int8_t)((uint8_t)deltaCode & 0x0f) - 3) * 15;', rule='R1'),
    dict(id='twin-accessor-reads-wrong-field', file='src/ace_time/internal/Brokers.h', unique=False, nth=0,
         find='    int16_t deltaMinutes() const { return 15 * mZoneRule->deltaCode; }', replace='    int16_t deltaMinutes() const { return 15 * mZoneRule->atTimeCode; }',
         rule='R-alt', tier='thorough'),
    dict(id='twin-era-accessor-crossed', file='src/ace_time/internal/Brokers.h', unique=False, nth=1,
         find='    uint8_t untilDay() const { return mZoneEra->untilDay; }', replace='    uint8_t untilDay() const { return mZoneEra->untilMonth; }',
         rule='R-alt', tier='thorough'),
    dict(id='decoder-delta-mask-lost', file='src/ace_time/internal/Brokers.h',
         find='return ((int8_t)((uint8_t)deltaCode & 0x0f) - 4) * 15;', replace='return ((int8_t)deltaCode - 4) * 15;', rule='R3'),
    dict(id='encoder-basic-minute-remainder-dropped', file='tools/zonedb/argenerator.py', find='    if timeMinute > 0:', replace="    if scope == 'extended' and timeMinute > 0:",
         rule='R3'),
    dict(id='decoder-offset-shift', file='src/ace_time/internal/Brokers.h',
         find='return (offsetCode * 15) + (((uint8_t)deltaCode & 0xf0) >> 4);', replace='return (offsetCode * 15) + (((uint8_t)deltaCode & 0xf0) >> 3);', rule='R3'),
    dict(id='accessor-reads-wrong-field', file='src/ace_time/internal/Brokers.h', unique=False, nth=0,
         find='return pgm_read_byte(&mZoneRule->toYearTiny);', replace='return pgm_read_byte(&mZoneRule->fromYearTiny);', rule='R2', construct='toYearTiny'),
    dict(id='zoneid-read-as-word', file='src/ace_time/internal/Brokers.h', unique=False, nth=0,
         find='return pgm_read_dword(&mZoneInfo->zoneId);', replace='return pgm_read_word(&mZoneInfo->zoneId);', rule='R2', construct='zoneId'),
    dict(id='era-until-month-cell', file='src/ace_time/zonedbx/zone_infos.cpp', regex=True, unique=False, nth=0,
         find=r'10 /\*untilMonth\*/', replace='11 /*untilMonth*/', rule='R1-era'),
    dict(id='numEras-cell', file='src/ace_time/zonedbx/zone_infos.cpp', regex=True, unique=False, nth=0,
         find=r'2 /\*numEras\*/', replace='1 /*numEras*/', rule='R1-info'),
    dict(id='encoder-delta-bias-5', file='tools/zonedb/argenerator.py', find='return f"({seconds // 900} + 4)"',
         replace='return f"({seconds // 900} + 5)"', rule='R3'),
    dict(id='encoder-time-divisor', file='tools/zonedb/argenerator.py', find='timeMinute = seconds % 900 // 60',
         replace='timeMinute = seconds % 600 // 60', rule='R3'),
    dict(id='encoder-offset-truncating-division', file='tools/zonedb/argenerator.py', find='offsetCode = offsetSeconds // 900  # truncate to -infinty',
         replace='offsetCode = div_to_zero(offsetSeconds, 900)', rule='R3'),
    dict(id='template-cells-swapped', file='tools/zonedb/argenerator.py',
         find='    {inMonth} /*inMonth*/,\n    {onDayOfWeek} /*onDayOfWeek*/,', replace='    {onDayOfWeek} /*onDayOfWeek*/,\n    {inMonth} /*inMonth*/,', rule='R3'),
    dict(id='suffix-constant-collides', file='src/ace_time/internal/ZoneContext.inc', find='kSuffixS = 0x10', replace='kSuffixS = 0x01', rule='R3'),
    dict(id='save-guard-widened', file='tools/tzdb/transformer.py', regex=True, find=r'\n {16}if delta_code < 0 or delta_code > 15:',
         replace=r'\n                if delta_code < 0 or delta_code > 16:', rule='R3'),
    dict(id='fixed-rules-guard-removed', file='tools/tzdb/transformer.py', regex=True,
         find=r"                    delta_code = div_to_zero\(\n                        rules_delta_seconds_truncated, 900\) \+ 4\n                    if delta_code < 0 or delta_code > 15:",
         replace="                    delta_code = 4\\n                    if delta_code < 0 or delta_code > 15:", rule='R3'),
    dict(id='decoder-time-commuted-silent', file='src/ace_time/internal/Brokers.h', find='return code * (uint16_t) 15 + (modifier & 0x0f);',
         replace='return (modifier & 0x0f) + (uint16_t) 15 * code;', expect='silent'),
    dict(id='decoder-delta-commuted-silent', file='src/ace_time/internal/Brokers.h',
         find='return ((int8_t)((uint8_t)deltaCode & 0x0f) - 4) * 15;', replace='return 15 * ((int8_t)((uint8_t)deltaCode & 0x0f) - 4);', expect='silent'),
    dict(id='decoder-offset-shift-then-mask-silent', file='src/ace_time/internal/Brokers.h',
         find='return (offsetCode * 15) + (((uint8_t)deltaCode & 0xf0) >> 4);', replace='return (offsetCode * 15) + ((((uint8_t)deltaCode) >> 4) & 0x0f);', expect='silent'),
    dict(id='save-guard-operands-reversed-silent', file='tools/tzdb/transformer.py', regex=True, find=r'\n {16}if delta_code < 0 or delta_code > 15:',
         replace=r'\n                if delta_code > 15 or 0 > delta_code:', expect='silent'),
    dict(id='save-guard-as-chained-range-silent', file='tools/tzdb/transformer.py', regex=True, find=r'\n {16}if delta_code < 0 or delta_code > 15:',
         replace=r'\n                if not (0 <= delta_code <= 15):', expect='silent'),
    dict(id='encoder-delta-code-hoisted-silent', file='tools/zonedb/argenerator.py', find='return f"({seconds // 900} + 4)"',
         replace='code = seconds // 900\n    return f"({code} + 4)"', expect='silent'),
    dict(id='encoder-renamed-locals-silent', file='tools/zonedb/argenerator.py', regex=True,
         find=r'timeCode = div_to_zero\(seconds, 15 \* 60\)\n    timeMinute = seconds % 900 // 60\n    modifier = _to_modifier\(suffix, scope\)\n    if timeMinute > 0:\n        modifier \+= f\' \+ \{timeMinute\}\'\n    return timeCode, modifier',
         replace="tc = div_to_zero(seconds, 900)\\n    rem = (seconds % (15 * 60)) // 60\\n    m = _to_modifier(suffix, scope)\\n    if rem > 0:\\n        m = m + f' + {rem}'\\n    return tc, m", expect='silent'),
    dict(id='policies-reordered-silent', file='src/ace_time/zonedb/zone_infos.cpp', regex=True, unique=False, nth=0,
         find=r'(\n  //\s+0:00    -    GMT\n)', replace=r'\1', expect='silent'),
]
