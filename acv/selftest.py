"""Self-test of the checker (thorough tier): must-fire and must-stay-silent variants.

A variant is an edit of one file of the current tree, applied to a private scratch copy of
src/ + tools/ under a temp dir outside /repo and /verif (removed afterwards).  The property's
check is run on the scratch copy; a must-fire variant has to be reported with the expected rule
(and construct substring), a must-stay-silent twin must produce no new violation.  A variant whose
anchor text is not present in the current tree is skipped (the tree changed; that is not an alarm)."""
import os
import re
import shutil
import subprocess
import sys
import tempfile
from concurrent.futures import ThreadPoolExecutor

from .common import VERIF


def _apply(text, v):
    find = v['find']
    if v.get('regex'):
        m = list(re.finditer(find, text, re.S))
        if len(m) < 1 or (v.get('unique', True) and len(m) != 1):
            return None
        k = v.get('nth', 0)
        mm = m[k]
        rep = v['replace'](mm) if callable(v['replace']) else mm.expand(v['replace'])
        return text[:mm.start()] + rep + text[mm.end():]
    n = text.count(find)
    if n < 1 or (v.get('unique', True) and n != 1):
        return None
    if v.get('unique', True):
        return text.replace(find, v['replace'], 1)
    k = v.get('nth', 0)
    idx = -1
    for _ in range(k + 1):
        idx = text.find(find, idx + 1)
        if idx < 0:
            return None
    return text[:idx] + v['replace'] + text[idx + len(find):]


def run_variant(pid, v, repo, baseline_keys):
    tmp = tempfile.mkdtemp(prefix='acv-selftest-')
    try:
        for d in ('src', 'tools'):
            shutil.copytree(os.path.join(repo, d), os.path.join(tmp, d), symlinks=True)
        edits = v['edits'] if 'edits' in v else [v]
        for ed in edits:
            p = os.path.join(tmp, ed['file'])
            if not os.path.exists(p):
                return dict(id=v['id'], status='skipped', why='file %s absent' % ed['file'])
            text = open(p, encoding='utf-8').read()
            new = _apply(text, ed)
            if new is None:
                return dict(id=v['id'], status='skipped', why='anchor text not found (uniquely) in %s' % ed['file'])
            open(p, 'w', encoding='utf-8').write(new)
        env = dict(os.environ)
        env['ACV_NO_SELFTEST'] = '1'     # a variant may ask for the thorough tier of the check itself, never for a nested self-test
        r = subprocess.run([sys.executable, os.path.join(VERIF, 'check.py'), pid, '--repo', tmp, '--no-evidence', '--tier', v.get('tier', 'quick'),
                            '--evidence-dir', os.path.join(tmp, 'ev')], capture_output=True, text=True, env=env)
        out = r.stdout + r.stderr
        viol = []
        for ln in out.splitlines():
            m = re.match(r'^(\S+): %s \[(\S+)\] (\S+): (.*)$' % pid, ln)
            if m:
                viol.append((m.group(2), m.group(3), m.group(4), m.group(1)))
        new_viol = [x for x in viol if (x[0], x[1]) not in baseline_keys]
        expect = v.get('expect', 'fire')
        if expect == 'fire':
            want_rule = v.get('rule')
            want_c = v.get('construct', '')
            hit = [x for x in new_viol if (want_rule is None or x[0] == want_rule or x[0].startswith(want_rule)) and want_c in x[1]]
            if r.returncode == 1 and hit:
                return dict(id=v['id'], status='fired', report='%s [%s] %s: %s' % (hit[0][3], hit[0][0], hit[0][1], hit[0][2][:160]))
            return dict(id=v['id'], status='MISSED', rc=r.returncode, out=out[-1500:])
        else:
            if r.returncode in (0, 1) and not new_viol and (r.returncode == 0 or viol):
                return dict(id=v['id'], status='silent')
            return dict(id=v['id'], status='FALSE-ALARM', rc=r.returncode, out=out[-1500:])
    finally:
        shutil.rmtree(tmp, ignore_errors=True)


def run(pid, variants, cfg, baseline_findings):
    baseline_keys = {(f.rule, f.construct) for f in baseline_findings}
    with ThreadPoolExecutor(max_workers=max(1, min(cfg.jobs, len(variants) or 1))) as ex:
        res = list(ex.map(lambda v: run_variant(pid, v, cfg.repo, baseline_keys), variants))
    return res
