"""C05 by interpretation (E-SEQ, typed): instants, date-times and conversions through the real bodies.

The date-time classes (LocalDate, LocalTime, LocalDateTime, TimeOffset, OffsetDateTime, ZonedDateTime) are interpreted
through their own factories, accessors and converters.  A TimeZone is abstracted at the one member the date-time classes ask
it - getUtcOffset(epochSeconds) - by two model zones: "A" (+01:00, DST +02:00 from 2005-03-27 01:00 UTC to 2005-10-30 01:00
UTC) and "B" (a fixed -05:00).  Instants are taken around both transitions of A, around the epoch, at day boundaries on both
sides of it and two billion seconds either way.  Decided (each on every instant / pair / offset of the family):

  R1  forEpochSeconds(e, x).toEpochSeconds() == e and the fields are the calendar reading of e + offset (x a fixed offset, or
      a model zone); the Unix variants are the same objects at e + 946684800 (for / to, seconds and days, all four classes)
  R2  convertToTimeOffset / convertToTimeZone keep the instant and take the target offset / zone
  R3  compareTo of two date-times is the sign of the difference of their instants - also for instants more than 2^31 s apart
  R4  ZonedDateTime::forEpochSeconds reads the offset of the zone at the very instant it converts (fields right next to a
      transition are right on both sides of it)"""
import datetime

from .common import AnalysisError
from .rules_C07b import model_total, T1, T2

NS = 'ace_time::'
UNIX = 946684800
EPOCH = datetime.datetime(2000, 1, 1)


def calendar(e, total_minutes):
    d = EPOCH + datetime.timedelta(seconds=e + 60 * total_minutes)
    return (d.year, d.month, d.day, d.hour, d.minute, d.second)


def roundtrip_eval(R, lib, ob):
    from .aeval import AEval, AObj, CxxModule, Raised, cxx_object
    mod = CxxModule(lib, [NS])
    inv = lib.const(NS + 'LocalDate::kInvalidEpochSeconds')
    thorough = R.cfg.tier == 'thorough'

    def offset_obj(minutes):
        o = cxx_object(lib, NS + 'TimeOffset')
        o.attrs['mMinutes'] = minutes
        return o

    def zone(name):
        # two manual zones as far as the members of TimeZone go (so that operator== tells them apart); what they answer is the model's
        z = cxx_object(lib, NS + 'TimeZone')
        z.oid = name
        if 'mType' in z.attrs and 'mStdOffsetMinutes' in z.attrs:
            z.attrs['mType'] = lib.const(NS + 'TimeZone::kTypeManual')
            z.attrs['mStdOffsetMinutes'] = 60 if name == 'zoneA' else -300
        return z

    def zone_offset(z, e):
        return model_total(e) if getattr(z, 'oid', None) == 'zoneA' else -300

    def tz_get(ev, recv, args):
        return offset_obj(zone_offset(recv, args[0]))
    intr = {NS + 'TimeZone::getUtcOffset': tz_get, NS + 'TimeZone::isError': lambda ev, recv, args: 0}

    def fn(q, nparams=None):
        fs = [f for f in lib.fns(q) if nparams is None or len(f.params) == nparams]
        if not fs:
            raise AnalysisError('anchor vanished: %s' % q)
        return fs[0]

    def call(q, args, recv=None, nparams=None):
        f = fn(q, len(args) if nparams is None else nparams)
        return AEval(module=mod, intrinsics=intr, typed=True, max_steps=100000).call_function(f.name, list(args), recv=recv, chosen=CxxModule._Fn(f))

    def fields(cls, o):
        names = ('year', 'month', 'day', 'hour', 'minute', 'second') if cls != 'LocalDate' else ('year', 'month', 'day')
        return tuple(call('%s%s::%s' % (NS, cls, k), [], recv=o) for k in names)
    instants = sorted({T1 - 1, T1, T1 + 1, T2 - 1, T2, T2 + 1, -1, 0, 1, 86399, 86400, -86400, -86401, 43200, 951782400, -978307200, 2000000000, -2000000000,
                       T1 - 3600, T1 + 3600, T2 - 3600, T2 + 7200} | (set(range(T1 - 7200, T1 + 7201, 900)) if thorough else set()))
    offsets = [0, 60, -300, 330, 345, -210, 840, -720, 1, -1] + ([15 * k for k in range(-64, 65)] if thorough else [])
    zA, zB = zone('zoneA'), zone('zoneB')
    first = {}
    counts = {}

    def note(rid, c, loc, text):
        first.setdefault((rid, c), (loc, text))

    def count(rid, c, loc):
        counts[(rid, c)] = (loc, counts.get((rid, c), (loc, 0))[1] + 1)
    try:
        # ---- R1 / R4: instants -> date-times -> instants
        fo = fn(NS + 'OffsetDateTime::forEpochSeconds', 2)
        fz = fn(NS + 'ZonedDateTime::forEpochSeconds', 2)
        for e in instants:
            for off in offsets:
                c = 'OffsetDateTime::forEpochSeconds~toEpochSeconds'
                count('R1', c, fo.loc)
                odt = call(fo.name, [e, offset_obj(off)])
                back = call(NS + 'OffsetDateTime::toEpochSeconds', [], recv=odt)
                got = fields('OffsetDateTime', odt)
                if back != e or got != calendar(e, off):
                    note('R1', c, fo.loc, 'OffsetDateTime::forEpochSeconds(%d, %+d min) has the fields %s (the calendar says %s) and converts back to %r' % (e, off, got, calendar(e, off), back))
                # Unix variants of the same object
                c = 'OffsetDateTime::forUnixSeconds/toUnixSeconds'
                count('R1', c, fo.loc)
                u = call(NS + 'OffsetDateTime::toUnixSeconds', [], recv=odt)
                odt2 = call(NS + 'OffsetDateTime::forUnixSeconds', [e + UNIX, offset_obj(off)])
                if u != e + UNIX or fields('OffsetDateTime', odt2) != got or call(NS + 'OffsetDateTime::toEpochSeconds', [], recv=odt2) != e:
                    note('R1', c, fo.loc, 'instant %d, offset %+d min: toUnixSeconds() is %r (expected %d); forUnixSeconds(%d) has the fields %s, forEpochSeconds(%d) %s'
                         % (e, off, u, e + UNIX, e + UNIX, fields('OffsetDateTime', odt2), e, got))
            for z in (zA, zB):
                c = 'ZonedDateTime::forEpochSeconds~toEpochSeconds'
                count('R4', c, fz.loc)
                zdt = call(fz.name, [e, z])
                back = call(NS + 'ZonedDateTime::toEpochSeconds', [], recv=zdt)
                got = fields('ZonedDateTime', zdt)
                tot = zone_offset(z, e)
                if back != e or got != calendar(e, tot):
                    note('R4', c, fz.loc, 'ZonedDateTime::forEpochSeconds(%d, %s) has the fields %s and converts back to %r; the zone is at %+d min at that instant, the calendar says %s'
                         % (e, 'a zone with a transition at %d' % (T1 if abs(e - T1) < abs(e - T2) else T2) if z is zA else 'a fixed zone', got, back, tot, calendar(e, tot)))
                c = 'ZonedDateTime::forUnixSeconds/toUnixSeconds'
                count('R1', c, fz.loc)
                u = call(NS + 'ZonedDateTime::toUnixSeconds', [], recv=zdt)
                zdt2 = call(NS + 'ZonedDateTime::forUnixSeconds', [e + UNIX, z])
                if u != e + UNIX or fields('ZonedDateTime', zdt2) != got:
                    note('R1', c, fz.loc, 'instant %d: toUnixSeconds() is %r (expected %d); forUnixSeconds(%d) has the fields %s, forEpochSeconds(%d) %s'
                         % (e, u, e + UNIX, e + UNIX, fields('ZonedDateTime', zdt2), e, got))
            # LocalDateTime / LocalDate: Unix variants
            for cls in ('LocalDateTime', 'LocalDate'):
                c = '%s::forUnixSeconds/toUnixSeconds' % cls
                f1 = fn('%s%s::forEpochSeconds' % (NS, cls), 1)
                count('R1', c, f1.loc)
                a = call(f1.name, [e])
                b = call('%s%s::forUnixSeconds' % (NS, cls), [e + UNIX])
                u = call('%s%s::toUnixSeconds' % (NS, cls), [], recv=a)
                ee = call('%s%s::toEpochSeconds' % (NS, cls), [], recv=a)
                if fields(cls, a) != fields(cls, b) or u != ee + UNIX or (cls == 'LocalDateTime' and ee != e) or (cls == 'LocalDate' and ee != (e // 86400) * 86400):
                    note('R1', c, f1.loc, '%s: forUnixSeconds(%d) has the fields %s, forEpochSeconds(%d) %s; toUnixSeconds() is %r, toEpochSeconds() %r'
                         % (cls, e + UNIX, fields(cls, b), e, fields(cls, a), u, ee))
            if not (lib.has_fn(NS + 'LocalDate::forUnixDays') and lib.has_fn(NS + 'LocalDate::toUnixDays')):
                continue
            c = 'LocalDate::forUnixDays/toUnixDays'
            fd = fn(NS + 'LocalDate::forEpochDays', 1)
            count('R1', c, fd.loc)
            days = e // 86400
            kd = lib.const(NS + 'LocalDate::kDaysSinceUnixEpoch')
            a = call(fd.name, [days])
            b = call(NS + 'LocalDate::forUnixDays', [days + kd])
            ud = call(NS + 'LocalDate::toUnixDays', [], recv=a)
            if fields('LocalDate', a) != fields('LocalDate', b) or ud != days + kd:
                note('R1', c, fd.loc, 'day %d: forUnixDays(%d) has the fields %s, forEpochDays(%d) %s; toUnixDays() is %r' % (days, days + kd, fields('LocalDate', b), days, fields('LocalDate', a), ud))
        # the two ends of the 32-bit range (every value but the sentinel is a valid instant); the Unix variants are left out here,
        # they leave the range by definition
        IMIN, IMAX = -(1 << 31), (1 << 31) - 1
        f1 = fn(NS + 'LocalDateTime::forEpochSeconds', 1)
        c = 'LocalDateTime::forEpochSeconds~toEpochSeconds:range-ends'
        for e in (IMIN + 1, IMIN + 2, IMIN + 11647, IMIN + 11648, IMIN + 11649, IMIN + 86400, IMAX - 86400, IMAX - 11647, IMAX - 1, IMAX):
            count('R1', c, f1.loc)
            a = call(f1.name, [e])
            ee = call(NS + 'LocalDateTime::toEpochSeconds', [], recv=a)
            if ee != e or fields('LocalDateTime', a) != calendar(e, 0):
                note('R1', c, f1.loc, 'LocalDateTime::forEpochSeconds(%d) has the fields %s (the calendar says %s) and converts back to %r' % (e, fields('LocalDateTime', a), calendar(e, 0), ee))
            odt = call(fo.name, [e, offset_obj(0)])
            back = call(NS + 'OffsetDateTime::toEpochSeconds', [], recv=odt)
            if back != e:
                note('R1', c, fo.loc, 'OffsetDateTime::forEpochSeconds(%d, +0 min) converts back to %r' % (e, back))
        # sentinel
        c = 'OffsetDateTime::forEpochSeconds:sentinel'
        count('R1', c, fo.loc)
        odt = call(fo.name, [inv, offset_obj(60)])
        if not call(NS + 'OffsetDateTime::isError', [], recv=odt) or call(NS + 'OffsetDateTime::toEpochSeconds', [], recv=odt) != inv:
            note('R1', c, fo.loc, 'the invalid sentinel does not give an error value that converts back to the sentinel')
        # ---- R2: conversions keep the instant
        f2o = fn(NS + 'OffsetDateTime::convertToTimeOffset', 1)
        f2z = fn(NS + 'ZonedDateTime::convertToTimeZone', 1)
        # every hour of one day as well: a conversion between offsets more than 24 h apart (-12:00 <-> +14:00) moves the local date by
        # two days for the local times of the first or last hours only
        hours_of_a_day = [173836800 + 3600 * h_ + 1799 for h_ in range(24)]          # 2005-07-05 00:29:59 UTC onwards
        for e in list(instants) + hours_of_a_day:
            for off, off2 in ((60, -300), (0, 345), (-720, 840), (840, -720), (-660, 825), (330, 330)):
                if e in hours_of_a_day and abs(off - off2) <= 1440 and e not in instants:
                    continue
                c = 'OffsetDateTime::convertToTimeOffset'
                count('R2', c, f2o.loc)
                odt = call(fo.name, [e, offset_obj(off)])
                conv = call(f2o.name, [offset_obj(off2)], recv=odt)
                back = call(NS + 'OffsetDateTime::toEpochSeconds', [], recv=conv)
                got = fields('OffsetDateTime', conv)
                if back != e or got != calendar(e, off2):
                    note('R2', c, f2o.loc, 'the instant %d at %+d min converted to %+d min has the fields %s (the calendar says %s) and the instant %r' % (e, off, off2, got, calendar(e, off2), back))
            for z, z2 in ((zA, zB), (zB, zA), (zA, zA)):
                c = 'ZonedDateTime::convertToTimeZone'
                count('R2', c, f2z.loc)
                zdt = call(fz.name, [e, z])
                conv = call(f2z.name, [z2], recv=zdt)
                back = call(NS + 'ZonedDateTime::toEpochSeconds', [], recv=conv)
                got = fields('ZonedDateTime', conv)
                tot = zone_offset(z2, e)
                if back != e or got != calendar(e, tot):
                    note('R2', c, f2z.loc, 'the instant %d converted from one model zone to the other has the fields %s (the calendar says %s) and the instant %r' % (e, got, calendar(e, tot), back))
        # ---- R3: compareTo orders by instant
        pairs = [(a_, b_) for a_ in (-2000000000, -1, 0, T1, 2000000000) for b_ in (-2000000000, -1, 0, T1, T1 + 1, 2000000000)]
        # two date-times of one zone on either side of the hour that occurs twice: equal or reversed local fields, ordered instants
        pairs += [(T2 - 1800, T2 + 1800), (T2 + 1800, T2 - 1800), (T2 - 60, T2 + 60), (T1 - 1, T1 + 1)]
        same = set(range(len(pairs) - 4, len(pairs)))
        for cls, mk in (('OffsetDateTime', lambda e_, k_: call(fo.name, [e_, offset_obj((60, -300, 840)[k_ % 3])])),
                        ('ZonedDateTime', lambda e_, k_: call(fz.name, [e_, zA if (k_ in same or k_ - 1 in same) else (zA, zB)[k_ % 2]])),
                        ('LocalDateTime', lambda e_, k_: call(NS + 'LocalDateTime::forEpochSeconds', [e_]))):
            fc = fn('%s%s::compareTo' % (NS, cls), 1)
            c = '%s::compareTo' % cls
            for k_, (a_, b_) in enumerate(pairs):
                count('R3', c, fc.loc)
                r = call(fc.name, [mk(b_, k_ + 1)], recv=mk(a_, k_))
                want = (a_ > b_) - (a_ < b_)
                if (r > 0) - (r < 0) != want if isinstance(r, int) else True:
                    note('R3', c, fc.loc, '%s: the instants %d and %d compare as %r, expected %s%s' % (
                        cls, a_, b_, r, {-1: 'negative', 0: 'zero', 1: 'positive'}[want],
                        ' (they are more than 2^31 s apart: their difference does not fit 32 bits)' if abs(a_ - b_) >= 1 << 31 else ''))
    except Raised as x_:
        raise AnalysisError('C05: interpretation raises %s' % x_.what)
    for (rid, c), (loc, n) in sorted(counts.items()):
        R.instance(rid, c, loc, '%d cases interpreted' % n, n=max(1, n // 8))
        if (rid, c) in first:
            R.violation(rid, c, first[(rid, c)][0], first[(rid, c)][1])
