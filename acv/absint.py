"""E-ABS: abstract interpretation over the IR with a difference-bound (zone) domain.

Variables are strings (locals, parameters, 'this.f' paths); '0' is the zero variable.  m[(x, y)] = c means
x - y <= c.  Transfer functions for x := y + k, x := k, x := y - z + k (named difference), x := mid(lo, hi);
guards ==, !=, <, <=, >, >=; join = pointwise max; widening after 3 rounds, one narrowing pass.
Narrowing integral casts are proof obligations (operand interval must lie inside the target range).
Hooks: on_call(e, state) lets a rule state obligations at call sites; on_index likewise for subscripts."""
from .common import AnalysisError
from .cxx import int_type
from .ir import E, S, show
from .paths import path_of

INF = float('inf')


class DBM:
    def __init__(self, m=None, bottom=False):
        self.m = dict(m) if m else {}
        self.bottom = bottom

    def copy(self):
        return DBM(self.m, self.bottom)

    def vars(self):
        s = set()
        for (x, y) in self.m:
            s.add(x)
            s.add(y)
        s.discard('0')
        return s

    def get(self, x, y):
        if x == y:
            return 0
        return self.m.get((x, y), INF)

    def add(self, x, y, c):
        """x - y <= c"""
        if self.bottom:
            return self
        if x == y:
            if c < 0:
                self.bottom = True
            return self
        if c < self.get(x, y):
            self.m[(x, y)] = c
            self.close_incremental(x, y, c)
        return self

    def close_incremental(self, x, y, c):
        vs = list(self.vars() | {'0'})
        # new paths through edge x-y
        for a in vs:
            ax = self.get(a, x)
            if ax == INF:
                continue
            for b in vs:
                yb = self.get(y, b)
                if yb == INF:
                    continue
                n = ax + c + yb
                if a == b:
                    if n < 0:
                        self.bottom = True
                        return
                elif n < self.get(a, b):
                    self.m[(a, b)] = n

    def close(self):
        """all consequences of the recorded differences (shortest paths); a widened matrix is not closed by itself"""
        if self.bottom:
            return self
        vs = list(self.vars() | {'0'})
        for k in vs:
            for a in vs:
                ak = self.get(a, k)
                if ak == INF:
                    continue
                for b in vs:
                    kb = self.get(k, b)
                    if kb == INF:
                        continue
                    n = ak + kb
                    if a == b:
                        if n < 0:
                            self.bottom = True
                            return self
                    elif n < self.get(a, b):
                        self.m[(a, b)] = n
        return self

    def forget(self, x):
        for k in [k for k in self.m if x in k]:
            del self.m[k]

    def shift(self, x, k):
        """x := x + k"""
        for (a, b) in list(self.m):
            if a == x:
                self.m[(a, b)] += k
            elif b == x:
                self.m[(a, b)] -= k

    def bounds(self, x):
        """(lo, hi) of variable x."""
        hi = self.get(x, '0')
        lo = -self.get('0', x)
        return lo, hi

    def join(self, o):
        if self.bottom:
            return o.copy()
        if o.bottom:
            return self.copy()
        m = {}
        for k, v in self.m.items():
            w = o.get(*k)
            if w != INF:
                m[k] = max(v, w)
        return DBM(m)

    def widen(self, o):
        """self widened by o (o is the newer iterate): keep bounds that did not grow."""
        if self.bottom:
            return o.copy()
        if o.bottom:
            return self.copy()
        m = {}
        for k, v in self.m.items():
            w = o.get(*k)
            if w <= v:
                m[k] = v
        return DBM(m)

    def leq(self, o):
        if self.bottom:
            return True
        if o.bottom:
            return False
        for k, v in o.m.items():
            if self.get(*k) > v:
                return False
        return True

    def describe(self, names=None):
        if self.bottom:
            return 'unreachable'
        out = []
        for (x, y), c in sorted(self.m.items()):
            if names and not ((x in names or x == '0') and (y in names or y == '0')):
                continue
            if y == '0':
                out.append('%s <= %d' % (x, c))
            elif x == '0':
                out.append('%s >= %d' % (y, -c))
            else:
                out.append('%s - %s <= %d' % (x, y, c))
        return ', '.join(out)


class Obligation:
    def __init__(self, kind, loc, construct, msg, ok, state=''):
        self.kind, self.loc, self.construct, self.msg, self.ok, self.state = kind, loc, construct, msg, ok, state


class AbsInt:
    def __init__(self, fold_global=None, type_of=None, hooks=None, widen_after=3, track=None):
        self.fold_global = fold_global
        self.hooks = hooks
        self.widen_after = widen_after
        self.obligations = []
        self.defs = {}        # var -> ('diff', y, z, k) valid in the current straight-line region
        self.types = {}       # var -> (width, signed)
        self.loops = []       # loop reports
        self.ret_states = []
        self.call_range = None   # optional callable (ai, call expr, state) -> (lo, hi) | None: summaries of callees

    # -- helpers ---------------------------------------------------------------------
    def name(self, e):
        while e.k == 'cast' and self._cast_is_widening(e):
            e = e.a[2]
        p = path_of(e) if e.k in ('var', 'field', 'this') else None
        return p

    def _cast_is_widening(self, e):
        return False

    def declare(self, st, name, ty):
        it = int_type(ty)
        if it:
            self.types[name] = it
            self.clamp_type(st, name)

    def clamp_type(self, st, name):
        it = self.types.get(name)
        if it:
            w, s = it
            lo = -(1 << (w - 1)) if s else 0
            hi = (1 << (w - 1)) - 1 if s else (1 << w) - 1
            if w == 1:
                lo, hi = 0, 1
            st.add(name, '0', hi)
            st.add('0', name, -lo)

    def const_of(self, e):
        if e.k == 'const':
            return e.a[0]
        if e.k == 'var' and self.fold_global is not None:
            return self.fold_global(e.a[0])
        if e.k == 'cast':
            v = self.const_of(e.a[2])
            if v is not None:
                from .cxx import wrap
                return wrap(v, e.a[0], e.a[1])
        return None

    # -- abstract value of an expression ------------------------------------------------
    def lin(self, e, st):
        """-> ('lin', var|None, k) | ('itv', lo, hi) | ('diff', y, z, k) | ('mid', a, b)"""
        k, a = e.k, e.a
        c = self.const_of(e)
        if c is not None:
            return ('lin', None, c)
        if k in ('var', 'field'):
            p = path_of(e)
            if p is not None:
                if p not in self.types and e.ty:
                    it = int_type(e.ty)
                    if it:
                        self.types[p] = it
                if p in self.types and not st.bottom:
                    lo_, hi_ = st.bounds(p)
                    if lo_ == -INF or hi_ == INF:
                        self.clamp_type(st, p)       # whichever copy of the state meets the name first: its type bounds it
                return ('lin', p, 0)
        if k == 'incdec' and a[2].k == 'var' and path_of(a[2]) is not None:
            # the value of x++ / x-- is x as it stands, of ++x / --x one more / less (the update itself is a separate effect)
            return ('lin', path_of(a[2]), 0 if a[1] else (1 if a[0] == '++' else -1))
        if k == 'un' and a[0] == '-':
            v = self.lin(a[1], st)
            if v[0] == 'lin' and v[1] is None:
                return ('lin', None, -v[2])
            lo, hi = self.range_of(v, st)
            return ('itv', -hi, -lo)
        if k == 'cast':
            v = self.lin(a[2], st)
            lo, hi = self.range_of(v, st)
            w, s = a[0], a[1]
            tlo = -(1 << (w - 1)) if s else 0
            thi = (1 << (w - 1)) - 1 if s else (1 << w) - 1
            if w == 1:
                tlo, thi = 0, 1
            src = int_type(a[2].ty)
            narrowing = src is None or not (tlo <= (-(1 << (src[0] - 1)) if src[1] else 0) and ((1 << (src[0] - 1)) - 1 if src[1] else (1 << src[0]) - 1) <= thi)
            if (lo >= tlo and hi <= thi) or not narrowing:
                return v
            if narrowing:
                self.obligations.append(Obligation(
                    'cast', e.loc, show(e),
                    'value of %s ranges over [%s, %s] but is converted to %s%d [%d, %d]: the conversion wraps' %
                    (show(a[2]), _b(lo), _b(hi), 'int' if s else 'uint', w, tlo, thi), False, st.describe()))
            return ('itv', tlo, thi)
        if k == 'bin':
            op = a[0]
            l, r = self.lin(a[1], st), self.lin(a[2], st)
            # the remainder formed without the % operator: q = x / c (truncating), x - c * q.  c * (x / c) lies between 0 and x,
            # and the difference between -(c-1) and c-1 with the sign of x - whatever the range of x
            if op == '/' and r[0] == 'lin' and r[1] is None and r[2] > 2 and l[0] == 'lin' and l[1] is not None and l[2] == 0:
                return ('quot', l[1], r[2])
            if op == '*':
                for q_, c_ in ((l, r), (r, l)):
                    if c_[0] == 'lin' and c_[1] is None and c_[2] > 0:
                        if q_[0] == 'lin' and q_[1] is not None and q_[2] == 0 and q_[1] in self.defs:
                            q_ = self.defs[q_[1]]
                        if q_[0] == 'quot' and q_[2] == c_[2]:
                            return ('qmul', q_[1], q_[2])
            if op == '-' and l[0] == 'lin' and l[1] is not None and l[2] == 0:
                q_ = r
                if q_[0] == 'lin' and q_[1] is not None and q_[2] == 0 and q_[1] in self.defs:
                    q_ = self.defs[q_[1]]
                if q_[0] == 'qmul' and q_[1] == l[1]:
                    lo_, hi_ = st.bounds(l[1])
                    c_ = q_[2]
                    return ('rem', 0 if lo_ >= 0 else -(c_ - 1), 0 if hi_ <= 0 else c_ - 1)
            if op in ('+', '-'):
                if r[0] == 'lin' and r[1] is None:
                    kk = r[2] if op == '+' else -r[2]
                    if l[0] == 'lin':
                        return ('lin', l[1], l[2] + kk)
                    if l[0] == 'diff':
                        return ('diff', l[1], l[2], l[3] + kk)
                    if l[0] == 'itv':
                        return ('itv', l[1] + kk, l[2] + kk)
                if op == '+' and l[0] == 'lin' and l[1] is None and r[0] == 'lin':
                    return ('lin', r[1], r[2] + l[2])
                if op == '-' and l[0] == 'lin' and r[0] == 'lin' and l[1] is not None and r[1] is not None:
                    return ('diff', l[1], r[1], l[2] - r[2])
                if op == '+' and l[0] == 'lin' and r[0] == 'half' and l[1] is not None and l[2] == 0:
                    # x + (y - x)/2  -> mid(x, y)
                    if r[1][0] == 'diff' and r[1][2] == l[1] and r[1][3] == 0:
                        return ('mid', l[1], r[1][1])
                if op == '+' and l[0] == 'lin' and r[0] == 'lin' and l[1] is not None and r[1] is not None and l[2] == 0 and r[2] == 0:
                    return ('sum', l[1], r[1])
                lo1, hi1 = self.range_of(l, st)
                lo2, hi2 = self.range_of(r, st)
                if op == '+':
                    return ('itv', lo1 + lo2, hi1 + hi2)
                return ('itv', lo1 - hi2, hi1 - lo2)
            if op == '/' and r[0] == 'lin' and r[1] is None and r[2] == 2:
                if l[0] == 'sum':
                    return ('mid', l[1], l[2])
                if l[0] == 'diff':
                    return ('half', l)
                if l[0] == 'lin' and l[1] is not None and l[2] == 0 and l[1] in self.defs:
                    d = self.defs[l[1]]
                    return ('half', d)
            if op in ('/', '%', '*', '&', '>>', '<<'):
                lo1, hi1 = self.range_of(l, st)
                lo2, hi2 = self.range_of(r, st)
                if op == '%' and lo2 == hi2 and lo2 > 0:
                    if lo1 >= 0:
                        return ('itv', 0, min(hi1, lo2 - 1))
                    return ('itv', -(lo2 - 1), lo2 - 1)
                if op == '/' and lo2 == hi2 and lo2 > 0 and lo1 > -INF and hi1 < INF:
                    return ('itv', _tdiv(lo1, lo2), _tdiv(hi1, lo2))
                if op == '*' and all(abs(x) < INF for x in (lo1, hi1, lo2, hi2)):
                    ps = [lo1 * lo2, lo1 * hi2, hi1 * lo2, hi1 * hi2]
                    return ('itv', min(ps), max(ps))
                if op == '&' and lo2 == hi2 and lo2 >= 0:
                    return ('itv', 0, lo2)
        if k == 'call' and self.call_range is not None:
            r = self.call_range(self, e, st)
            if r is not None:
                return ('itv', r[0], r[1])
        if k == 'cond':
            t = self.guard(st.copy(), a[0], True)
            f = self.guard(st.copy(), a[0], False)
            rs = []
            if not t.bottom:
                rs.append(self.range_of(self.lin(a[1], t), t))
            if not f.bottom:
                rs.append(self.range_of(self.lin(a[2], f), f))
            if rs:
                return ('itv', min(r[0] for r in rs), max(r[1] for r in rs))
        it = int_type(e.ty)
        if it:
            w, s = it
            if w == 1:
                return ('itv', 0, 1)
            return ('itv', -(1 << (w - 1)) if s else 0, (1 << (w - 1)) - 1 if s else (1 << w) - 1)
        return ('itv', -INF, INF)

    def range_of(self, v, st):
        if v[0] == 'lin':
            if v[1] is None:
                return v[2], v[2]
            lo, hi = st.bounds(v[1])
            return lo + v[2], hi + v[2]
        if v[0] == 'itv':
            return v[1], v[2]
        if v[0] == 'diff':
            hi = st.get(v[1], v[2]) + v[3]
            lo = -st.get(v[2], v[1]) + v[3]
            return lo, hi
        if v[0] == 'mid':
            la, ha = st.bounds(v[1])
            lb, hb = st.bounds(v[2])
            return min(la, lb), max(ha, hb)
        if v[0] == 'sum':
            la, ha = st.bounds(v[1])
            lb, hb = st.bounds(v[2])
            return la + lb, ha + hb
        if v[0] == 'half':
            lo, hi = self.range_of(v[1], st)
            return (_tdiv(lo, 2) if lo > -INF else -INF), (_tdiv(hi, 2) if hi < INF else INF)
        if v[0] == 'rem':
            return v[1], v[2]
        if v[0] in ('quot', 'qmul'):
            lo, hi = st.bounds(v[1])
            m_ = v[2] if v[0] == 'qmul' else 1
            return (m_ * _tdiv(lo, v[2]) if lo > -INF else -INF), (m_ * _tdiv(hi, v[2]) if hi < INF else INF)
        return -INF, INF

    # -- assignments --------------------------------------------------------------------
    def assign(self, st, x, v):
        # invalidate definitions that mention x
        for d in [d for d, df in self.defs.items() if d == x or x in (df[1], df[2])]:
            del self.defs[d]
        if v[0] == 'lin' and v[1] == x:
            st.shift(x, v[2])
            return
        if v[0] == 'lin' and v[1] is not None:
            y, k = v[1], v[2]
            st.forget(x)
            st.add(x, y, k)
            st.add(y, x, -k)
            return
        if v[0] == 'mid':
            a, b = v[1], v[2]
            le = st.get(a, b)
            st.forget(x)
            if le <= 0:
                st.add(a, x, 0)       # a <= x
                st.add(x, b, 0)       # x <= b
                if le <= -1:
                    st.add(x, b, -1)  # x < b when a < b
            else:
                lo, hi = self.range_of(v, st)
                if hi < INF:
                    st.add(x, '0', hi)
                if lo > -INF:
                    st.add('0', x, -lo)
            return
        lo, hi = self.range_of(v, st)
        st.forget(x)
        if hi < INF:
            st.add(x, '0', hi)
        if lo > -INF:
            st.add('0', x, -lo)
        if v[0] == 'diff' or (v[0] in ('quot', 'qmul') and v[1] != x):
            self.defs[x] = v

    # -- guards -------------------------------------------------------------------------
    def guard(self, st, cond, truth):
        """refine st (in place) with cond == truth; returns st (possibly bottom)."""
        k, a = cond.k, cond.a
        if k == 'un' and a[0] == '!':
            return self.guard(st, a[1], not truth)
        if k == 'un' and a[0] == 'bool':
            return self.guard(st, a[1], truth)
        if k == 'cast':
            return self.guard(st, a[2], truth)
        if k == 'var' and a[0] in getattr(self, 'bool_defs', {}):
            # a local that names a condition (declared once, never reassigned): the test is a test of that condition
            return self.guard(st, self.bool_defs[a[0]], truth)
        if k == 'bin' and a[0] in ('&&', '||'):
            conj = (a[0] == '&&') == truth
            if conj:
                # both sides hold (after De Morgan)
                self.guard(st, a[1], truth)
                self.guard(st, a[2], truth)
                return st
            s1 = self.guard(st.copy(), a[1], truth)
            s2 = self.guard(self.guard(st.copy(), a[1], not truth), a[2], truth)
            j = s1.join(s2)
            st.m, st.bottom = j.m, j.bottom
            return st
        if k == 'bin' and a[0] in ('<', '<=', '>', '>=', '==', '!='):
            op = a[0]
            if not truth:
                op = {'<': '>=', '<=': '>', '>': '<=', '>=': '<', '==': '!=', '!=': '=='}[op]
            l, r = self.lin(a[1], st), self.lin(a[2], st)
            self._apply(st, l, op, r)
            return st
        if k == 'const':
            if bool(a[0]) != truth:
                st.bottom = True
            return st
        return st

    def _apply(self, st, l, op, r):
        forms = []
        # normalise both sides to (var|'0', const)
        def norm(v):
            if v[0] == 'lin':
                return [(v[1] or '0', v[2])]
            return []
        L, Rr = norm(l), norm(r)
        pairs = [(x, kx, y, ky) for (x, kx) in L for (y, ky) in Rr]
        # a named difference on either side: d = y - z + k  compared with a constant
        for side, other, flip in ((l, r, False), (r, l, True)):
            df = None
            if side[0] == 'diff':
                df = side
            elif side[0] == 'lin' and side[1] in self.defs and side[2] == 0 and self.defs[side[1]][0] == 'diff':
                df = self.defs[side[1]]
            if df is not None and other[0] == 'lin' and other[1] is None:
                # y - z + k  op  c   ->   y - z  op  c - k
                pairs.append((df[1], 0, df[2], other[2] - df[3]) if not flip else None)
                if flip:
                    # c op y - z + k  ->  handled by swapping operator below
                    pairs.pop()
                    op2 = {'<': '>', '<=': '>=', '>': '<', '>=': '<=', '==': '==', '!=': '!='}[op]
                    self._rel(st, df[1], df[2], op2, other[2] - df[3])
        for p in pairs:
            if p is None:
                continue
            x, kx, y, ky = p
            # x + kx op y + ky  ->  x - y op ky - kx
            self._rel(st, x, y, op, ky - kx)

    def _rel(self, st, x, y, op, c):
        """x - y op c"""
        if op == '<=':
            st.add(x, y, c)
        elif op == '<':
            st.add(x, y, c - 1)
        elif op == '>=':
            st.add(y, x, -c)
        elif op == '>':
            st.add(y, x, -c - 1)
        elif op == '==':
            st.add(x, y, c)
            st.add(y, x, -c)
        elif op == '!=':
            if st.get(x, y) == c and st.get(x, y) != INF:
                st.add(x, y, c - 1)
            elif st.get(y, x) == -c:
                st.add(y, x, -c - 1)

    # -- statements -----------------------------------------------------------------------
    # States are bounded disjunctions (lists of DBMs, at most MAXD), so that the two arms of an if inside a loop
    # body reach the back edge separately (needed for ranking functions); beyond the bound they are joined.
    MAXD = 8

    def run(self, body, st):
        self.ret_states = []
        from .paths import Engine
        self.bool_defs = Engine._bool_defs(None, body)
        out, brk, cont = self.block(body, [st])
        return _joinall(out)

    def _cap(self, sts):
        sts = [x for x in sts if not x.bottom]
        if len(sts) > self.MAXD:
            return [_joinall(sts)]
        return sts

    def block(self, stmts, sts):
        brk, cont = [], []
        cur = self._cap(sts)
        for s in stmts:
            if not cur:
                break
            nxt = []
            for st in cur:
                saved = dict(self.defs)
                o, b, c = self.stmt(s, st)
                nxt.extend(o)
                brk.extend(b)
                cont.extend(c)
                if len(cur) > 1:
                    self.defs = {k_: v for k_, v in self.defs.items() if saved.get(k_) == v} if False else self.defs
            cur = self._cap(nxt)
        return cur, self._cap(brk), self._cap(cont)

    def visit_expr(self, e, st):
        """hooks for calls / subscripts inside an expression; the arms of ?: and the right operands of && / ||
        are visited under the refinement of their condition."""
        if self.hooks is None or e is None or not isinstance(e, E):
            return
        k, a = e.k, e.a
        if k == 'cond':
            self.visit_expr(a[0], st)
            self.visit_expr(a[1], self.guard(st.copy(), a[0], True))
            self.visit_expr(a[2], self.guard(st.copy(), a[0], False))
            return
        if k == 'bin' and a[0] in ('&&', '||'):
            self.visit_expr(a[1], st)
            self.visit_expr(a[2], self.guard(st.copy(), a[1], a[0] == '&&'))
            return
        for x in a:
            if isinstance(x, E):
                self.visit_expr(x, st)
            elif isinstance(x, (list, tuple)):
                for y in x:
                    if isinstance(y, E):
                        self.visit_expr(y, st)
        if st.bottom:
            return
        if k == 'call':
            self.hooks.on_call(self, e, st)
        elif k == 'index':
            self.hooks.on_index(self, e, st)
        elif (k == 'bin' and a[0] in ('+', '-', '*')) or (k == 'un' and a[0] == '-'):
            self.hooks.on_arith(self, e, st)

    def stmt(self, s, st):
        """-> (fallthrough states, break states, continue states)"""
        k, a = s.k, s.a
        if k == 'decl':
            if a[2] is not None:
                self.visit_expr(a[2], st)
                it = int_type(a[1])
                if it:
                    self.types[a[0]] = it
                    v = self.lin(a[2], st)
                    self.assign(st, a[0], v)
                    if self.hooks is not None:
                        self.hooks.on_assign(self, a[0], a[2], st)
                else:
                    self.assign(st, a[0], ('itv', -INF, INF))
                    # `T x = {a, b}` / `T x{a, b}` with T an aggregate: each integer member starts with the value of its initialiser
                    agg = a[2]
                    while agg.k == 'cast':
                        agg = agg.a[2]
                    lib_ = getattr(self, 'lib', None)
                    if agg.k == 'init' and lib_ is not None and isinstance(agg.a[0], str) and agg.a[1]:
                        cls_ = agg.a[0].replace('const ', '').strip()
                        try:
                            flds = lib_.fields(cls_)
                        except Exception:
                            flds = None
                        has_ctor = bool(flds) and any(len(c_.params) == len(agg.a[1]) for c_ in lib_.fns(cls_ + '::' + cls_.split('::')[-1]))
                        if flds and len(flds) == len(agg.a[1]) and not has_ctor:
                            for (n_, t_, _x), arg in zip(flds, agg.a[1]):
                                it_ = int_type(t_)
                                if it_:
                                    self.types[a[0] + '.' + n_] = it_
                                    self.assign(st, a[0] + '.' + n_, self.lin(arg, st))
                    if self.hooks is not None:
                        self.hooks.on_object_assign(self, a[0], a[2], st)
            else:
                st.forget(a[0])
                self.declare(st, a[0], a[1])
            return [st], [], []
        if k == 'assign':
            self.visit_expr(a[1], st)
            self.visit_expr(a[0], st)
            x = path_of(a[0]) if a[0].k in ('var', 'field') else None
            if x is None:
                return [st], [], []
            rhs = a[1]
            if a[2] != '=':
                rhs = E('bin', a[2][:-1], a[0], a[1], loc=s.loc, ty=a[0].ty)
                if self.hooks is not None and a[2][:-1] in ('+', '-', '*') and not st.bottom:
                    self.hooks.on_arith(self, rhs, st)
                it = int_type(a[0].ty)
                if it:
                    rhs = E('cast', it[0], it[1], rhs, loc=s.loc, ty=a[0].ty)
            if x not in self.types and a[0].ty:
                it = int_type(a[0].ty)
                if it:
                    self.types[x] = it
            if x in self.types:
                v = self.lin(rhs, st)
                self.assign(st, x, v)
                if self.hooks is not None:
                    self.hooks.on_assign(self, x, rhs, st)
            elif self.hooks is not None:
                self.hooks.on_object_assign(self, x, rhs, st)
            return [st], [], []
        if k == 'expr':
            self.visit_expr(a[0], st)
            for x in _incdecs(a[0]):
                self._incdec(st, x)
            return [st], [], []
        if k == 'if':
            self.visit_expr(a[0], st)
            t = self.guard(st.copy(), a[0], True)
            f = self.guard(st.copy(), a[0], False)
            saved = dict(self.defs)
            ft, bt, ct = self.block(a[1], [t])
            d1 = dict(self.defs)
            self.defs = dict(saved)
            ff, bf, cf = self.block(a[2], [f])
            self.defs = {k_: v for k_, v in self.defs.items() if d1.get(k_) == v}
            return ft + ff, bt + bf, ct + cf
        if k == 'return':
            if a[0] is not None:
                self.visit_expr(a[0], st)
            if self.hooks is not None:
                self.hooks.on_return(self, s, st)
            self.ret_states.append((s, st.copy()))
            return [], [], []
        if k == 'break':
            return [], [st], []
        if k == 'continue':
            return [], [], [st]
        if k == 'block':
            return self.block(a[0], [st])
        if k == 'loop':
            return [self.loop(s, st)], [], []
        if k == 'switch':
            self.visit_expr(a[0], st)
            out = []
            carry = []
            for labels, blk in a[1]:
                f, b, c = self.block(blk, [st.copy()] + carry)
                carry = f
                out.extend(b)
            out.extend(carry)
            if not any(l is None for labels, _ in a[1] for l in labels):
                out.append(st)
            return out, [], []
        raise AnalysisError('%s: statement kind %s not handled by the abstract interpreter' % (s.loc, k))

    def _incdec(self, st, e):
        x = path_of(e.a[2])
        if x is None:
            return
        d = 1 if e.a[0] == '++' else -1
        it = self.types.get(x) or int_type(e.a[2].ty)
        if it:
            self.types[x] = it
            lo, hi = st.bounds(x)
            w, s = it
            tlo = -(1 << (w - 1)) if s else 0
            thi = (1 << (w - 1)) - 1 if s else (1 << w) - 1
            if lo + d < tlo or hi + d > thi:
                self.obligations.append(Obligation('cast', e.loc, show(e), '%s of %s in [%s, %s] leaves %s%d' % (e.a[0], x, _b(lo), _b(hi), 'int' if s else 'uint', w), False, st.describe()))
                self.assign(st, x, ('itv', tlo, thi))
                return
        self.assign(st, x, ('lin', x, d))

    def _const_trip(self, st, cond, step, body, limit=16):
        """number of iterations of `for (i = c0; i < C; i++)` / `i <= C` / `i != C` when c0 and C are constants, the body
        does not assign i, and that number is at most `limit`; else None"""
        if cond is None or len(step) != 1 or step[0].k != 'assign':
            return None
        c = cond
        while c.k == 'cast':
            c = c.a[2]
        if not (c.k == 'bin' and c.a[0] in ('<', '<=', '!=')):
            return None
        i = path_of(c.a[1].a[2] if c.a[1].k == 'cast' else c.a[1])
        hi = self.const_of(c.a[2])
        if i is None or hi is None or i in _assigned_vars(body):
            return None
        sv = step[0]
        inc = sv.a[1]
        while inc.k == 'cast':
            inc = inc.a[2]
        if not (path_of(sv.a[0]) == i and sv.a[2] == '+=' and inc.k == 'const' and inc.a[0] == 1):
            return None
        lo, up = st.bounds(i)
        if lo != up or abs(lo) >= INF:
            return None
        n = int(hi - lo) + (1 if c.a[0] == '<=' else 0)
        if n < 0 or n > limit:
            return None
        # break / continue inside the body are handled by the caller through the block results
        return n

    def loop(self, s, st):
        kind, init, cond, step, body = s.a
        sts, _b1, _c1 = self.block(init, [st])
        st = _joinall(sts)
        assigned = _assigned_vars(body) | _assigned_vars(step)
        # a counting loop with a constant, small trip count (for (i = 0; i < 4; i++) over a fixed-width field) is walked
        # iteration by iteration: no widening, so what the body accumulates keeps the bounds it really has
        trip = self._const_trip(st, cond, step, body)
        if trip is not None:
            cur = [st]
            exits = []
            for _ in range(trip):
                t = []
                for x in cur:
                    y = x.copy()
                    self.visit_expr(cond, y)
                    y = self.guard(y, cond, True)
                    if not y.bottom:
                        t.append(y)
                if not t:
                    break
                f, b, c = self.block(body, t)
                exits.extend(b)
                cur, _b2, _c2 = self.block(step, f + c)
            for x in cur:
                y = self.guard(x.copy(), cond, False)
                if not y.bottom:
                    exits.append(y)
            return _joinall(exits) if exits else _joinall(cur)
        head = st.copy()
        info = {'loc': s.loc, 'assigned': sorted(assigned), 'cond': cond, 'stmt': s}
        rounds = 0
        saved_obl = len(self.obligations)
        saved_loops = len(self.loops)
        while True:
            rounds += 1
            if rounds > 40:
                raise AnalysisError('%s: abstract loop iteration did not stabilise' % s.loc)
            del self.obligations[saved_obl:]
            del self.loops[saved_loops:]
            self.defs = {}
            h = head.copy().close()       # the body is analysed from the closed copy; the widening sequence keeps `head` as it is
            ghosts = {}
            for v in assigned:
                g = v + "'0"
                h.forget(g)
                h.add(g, v, 0)
                h.add(v, g, 0)
                ghosts[v] = g
            ex = []
            if cond is not None:
                self.visit_expr(cond, h)
                t = self.guard(h.copy(), cond, True)
                ex.append(self.guard(h.copy(), cond, False))
            else:
                t = h
            f, b, c = self.block(body, [t])
            ex.extend(b)
            nxt, _b2, _c2 = self.block(step, f + c)
            info['back_states'] = [x.copy() for x in nxt]
            info['ghosts'] = ghosts
            info['head'] = head.copy()
            j = _joinall(nxt)
            for g in ghosts.values():
                j.forget(g)
            exj = _joinall(ex)
            for g in ghosts.values():
                exj.forget(g)
            new_head = head.join(j) if rounds <= self.widen_after else head.widen(head.join(j))
            for v in list(self.types):
                if v in new_head.vars():
                    self.clamp_type(new_head, v)
            if new_head.leq(head) and head.leq(new_head):
                exits = exj
                break
            head = new_head
        self.loops.append(info)
        self.defs = {}
        return exits


def _joinall(sts):
    out = DBM(bottom=True)
    for x in sts:
        out = out.join(x)
    return out


def _assigned_vars(block):
    from .ir import walk_stmts, stmt_exprs, walk_expr
    out = set()
    for s in walk_stmts(block):
        if s.k == 'assign':
            p = path_of(s.a[0]) if s.a[0].k in ('var', 'field') else None
            if p:
                out.add(p)
        elif s.k == 'decl':
            out.add(s.a[0])
        for e0 in stmt_exprs(s):
            for e in walk_expr(e0):
                if e.k == 'incdec':
                    p = path_of(e.a[2])
                    if p:
                        out.add(p)
    return out


def _incdecs(e):
    from .ir import walk_expr
    return [x for x in walk_expr(e) if x.k == 'incdec']


def _tdiv(a, b):
    q = abs(a) // abs(b)
    return q if (a >= 0) == (b >= 0) else -q


def _b(x):
    return '-inf' if x == -INF else '+inf' if x == INF else str(int(x))


class Hooks:
    def on_call(self, ai, e, st):
        pass

    def on_assign(self, ai, x, rhs, st):
        pass

    def on_object_assign(self, ai, x, rhs, st):
        """assignment to a variable of non-integral type (pointer, object)"""
        pass

    def on_arith(self, ai, e, st):
        """a +, - or * node (also the implied one of a compound assignment), visited under the guards that dominate it"""
        pass

    def on_index(self, ai, e, st):
        pass

    def on_return(self, ai, s, st):
        pass
