"""C09 - total error handling and memory safety (structural clauses).
R1 nullable results are tested before use; R2 indexed stores are inside capacity (class invariants by induction
+ site obligations, see rules_C09b); R3 error-sentinel guards of the epoch accessors/factories/parsers;
R4 the range guard of init() dominates the fill and error paths return error values; R5 table-side bounds."""
import re

from .common import AnalysisError, Report
from . import cxx, tables
from .ir import E, walk_expr, walk_stmts, all_exprs, stmt_exprs, show
from .paths import Engine, Rule, path_of
from .rules_C08 import null_test, field_writes, _root
from .tables import Ref

META = {
    'explanation': 'E-PATH rules (null-test dominance for every pointer obtained from a nullable function; sentinel guards of '
                   'the 14 epoch accessors, the for*Seconds/for*Days factories and the for*String parsers; range guard of '
                   'init() before any fill), E-ABS with inductively checked class invariants for every indexed store into a '
                   'fixed-size array, and E-TAB bounds on all 655 shipped zones (array lengths, anchor rules, letter indices, '
                   'recorded transition buffer sizes, five-slot bound of the basic cache); E-ABS interval analysis with '
                   'memoised callee summaries and inlined isError() predicates for signed-overflow obligations on every +, - and * '
                   'of the date/time value types (R8); year narrowing gate (R9); composite isError() truth tables (R7); cold-cache '
                   'acceptance of init() on the corner dates of the supported years (R4-accept); def-use rule for the Python '
                   'buffer-size estimator (R5-est); copyAndReplace() interpreted (E-SEQ, typed) on every short source string, replacement and '
                   'buffer size with guard cells behind the buffer (R2-copy); the interval domain knows the remainder written as '
                   'x - c * (x / c); isError(), dayOfWeek(), toEpochDays(), toEpochSeconds(), toSeconds() of LocalDate / LocalTime / LocalDateTime and '
                   'LocalDate::daysInMonth interpreted on every combination of boundary values of the stored fields: no read outside a '
                   'constant table (R2-table); init() refuses the corner dates a year or more outside the zone data (R4-reject).',
    'decided': 'no dereference of an untested nullable result; every indexed store/address into a fixed array is inside its '
               'capacity (given the listed, data-discharged exceptions); every epoch accessor/factory/parser tests its error '
               'condition first; fill code runs only inside the supported year range and init() accepts every date of that range; '
               'table-side counts and bounds; no signed 32-bit overflow in the value types except at the constructs listed as known '
               'findings (32-bit epoch-seconds range); a year outside 1873..2127 cannot wrap into range in a factory; composite '
               'error flags; the estimator behind transitionBufSize sees the transitions of earlier matches',
    'not_decided': 'that the recorded transitionBufSize really is the high-water mark for every zone and year (behavioural); '
                   'undefined behaviour of other kinds (shifts, aliasing, lifetime) and overflow outside the seven value types',
    'assumptions': ['clang 14 parser/template instantiation', 'macro-disabled debug blocks (if (0)) are dead code',
                    'callees outside the repository (strlen, strncpy, memcpy, strchr) respect their size arguments'],
}


# ---------------------------------------------------------------------------------------------------------
# R1 nullable results
# ---------------------------------------------------------------------------------------------------------

def nullable_functions(lib):
    """Functions of ace_time that can return a null pointer (fixpoint over 'returns the result of a nullable')."""
    cands = {}
    for q, fs in lib.funcs.items():
        if not q.startswith('ace_time::'):
            continue
        for f in fs:
            if f.ret.rstrip().endswith('*'):
                cands[q] = f
    nullable = set()
    changed = True
    while changed:
        changed = False
        for q, f in cands.items():
            if q in nullable:
                continue
            null_vars = set()
            for s in walk_stmts(f.body):
                if s.k == 'decl' and s.a[2] is not None and _may_be_null(s.a[2], nullable, null_vars):
                    null_vars.add(s.a[0])
                if s.k == 'assign' and s.a[0].k == 'var' and _may_be_null(s.a[1], nullable, null_vars):
                    null_vars.add(s.a[0].a[0])
            for s in walk_stmts(f.body):
                if s.k == 'return' and s.a[0] is not None and _may_be_null(s.a[0], nullable, null_vars):
                    nullable.add(q)
                    changed = True
                    break
    return nullable


def _may_be_null(e, nullable, null_vars):
    while e.k in ('cast', 'ptrcast'):
        e = e.a[-1]
    if e.k == 'null':
        return True
    if e.k == 'cond':
        return _may_be_null(e.a[1], nullable, null_vars) or _may_be_null(e.a[2], nullable, null_vars)
    if e.k == 'call' and e.a[0] in nullable:
        return True
    if e.k == 'var' and e.a[0] in null_vars:
        return True
    return False


DECLARED_NEVER_NULL_BUT_TESTED = {'ace_time::ZoneProcessorCache::getZoneProcessor'}


class NullRule(Rule):
    """state: frozenset((var, status)); status maybe / nonnull / null for locals holding a nullable result."""

    def __init__(self, R, fn, nullable, lib):
        self.R, self.fn, self.nullable, self.lib = R, fn, nullable, lib

    def initial(self):
        return [frozenset()]

    @staticmethod
    def _get(st, v):
        for k, s in st:
            if k == v:
                return s
        return None

    @staticmethod
    def _set(st, v, s):
        return frozenset([(k, x) for k, x in st if k != v] + ([(v, s)] if s else []))

    def _src(self, e, st):
        while e.k in ('cast', 'ptrcast'):
            e = e.a[-1]
        if e.k == 'call' and (e.a[0] in self.nullable or e.a[0] in DECLARED_NEVER_NULL_BUT_TESTED):
            return 'maybe'
        if e.k == 'null':
            return 'null'
        if e.k == 'cond':
            a, b = self._src(e.a[1], st), self._src(e.a[2], st)
            if a or b:
                return 'maybe'
        if e.k == 'var':
            return self._get(st, e.a[0])
        return None

    def assign(self, s, st, tr):
        if s.k == 'decl':
            name, init, ty = s.a[0], s.a[2], s.a[1] or ''
        elif s.a[0].k == 'var':
            name, init, ty = s.a[0].a[0], s.a[1], s.a[0].ty or ''
        else:
            return st
        if '*' not in ty:
            return st
        if init is None:
            return self._set(st, name, None)
        return self._set(st, name, self._src(init, st))

    def refine(self, cond, st, truth):
        p, positive = null_test(cond)
        if p is not None and self._get(st, p) is not None:
            return self._set(st, p, 'nonnull' if truth == positive else 'null')
        # `a == nullptr || rest`: handled by the engine's short-circuit splitting
        return st

    def _use(self, base, e, st, tr, what):
        b = base
        while b.k in ('cast', 'ptrcast'):
            b = b.a[-1]
        if b.k != 'var':
            # direct use of a call result: p()->x
            if b.k == 'call' and b.a[0] in self.nullable:
                c = '%s:%s' % (self.fn.name, b.a[0].split('::')[-1])
                self.R.instance('R1', c, e.loc, what)
                self.R.violation('R1', c, e.loc, 'result of %s (may be null) is dereferenced without a test' % b.a[0], detail=list(tr))
            return
        s = self._get(st, b.a[0])
        if s is None:
            return
        c = '%s:%s' % (self.fn.name, b.a[0])
        self.R.instance('R1', c, e.loc, what)
        if s != 'nonnull':
            self.R.violation('R1', c, e.loc,
                             '%s may be null here (it holds the result of a function that can return nullptr) and is %s without a null test on this path'
                             % (b.a[0], what), detail=list(tr))

    def event(self, e, st, tr):
        if e.k == 'field' and e.a[0].ty and e.a[0].ty.rstrip().endswith('*'):
            self._use(e.a[0], e, st, tr, 'dereferenced (->%s)' % e.a[1])
        elif e.k == 'deref':
            self._use(e.a[0], e, st, tr, 'dereferenced (*)')
        elif e.k == 'index' and e.a[0].ty and e.a[0].ty.rstrip().endswith('*'):
            self._use(e.a[0], e, st, tr, 'indexed')
        elif e.k == 'call' and e.a[1] is not None and e.a[1].ty and e.a[1].ty.rstrip().endswith('*'):
            self._use(e.a[1], e, st, tr, 'used as the object of %s()' % e.a[0].split('::')[-1])
        elif e.k == 'call':
            # nullable value handed to a repository function: the callee must test that parameter before use
            callee = self.lib.fns(e.a[0])
            for i, a in enumerate(e.a[2]):
                b = a
                while b.k in ('cast', 'ptrcast'):
                    b = b.a[-1]
                s = None
                if b.k == 'var':
                    s = self._get(st, b.a[0])
                elif b.k == 'call' and b.a[0] in self.nullable:
                    s = 'maybe'
                if s in ('maybe', 'null') and callee and i < len(callee[0].params):
                    c = '%s:%s->%s' % (self.fn.name, show(b)[:40].replace('ace_time::', ''), e.a[0].split('::')[-1])
                    self.R.instance('R1', c, e.loc, 'nullable argument')
                    msg = param_null_safe(self.lib, callee[0], callee[0].params[i][0], self.nullable)
                    if msg:
                        self.R.violation('R1', c, e.loc, 'a possibly null pointer is passed to %s, which %s' % (e.a[0], msg), detail=list(tr))
        return st


def param_null_safe(lib, callee, pname, nullable):
    """None if callee tests parameter pname before every dereference, else a description."""
    found = []

    class P(NullRule):
        def initial(self_):
            return [frozenset([(pname, 'maybe')])]

        def _use(self_, base, e, st, tr, what):
            b = base
            while b.k in ('cast', 'ptrcast'):
                b = b.a[-1]
            if b.k == 'var' and b.a[0] == pname and NullRule._get(st, pname) != 'nonnull':
                found.append('%s %s at %s without a null test' % (pname, what, e.loc))

        def event(self_, e, st, tr):
            if e.k == 'call' and e.a[1] is None:
                # forwarding to library functions (strncpy etc.) counts as a use
                for a in e.a[2]:
                    b = a
                    while b.k in ('cast', 'ptrcast'):
                        b = b.a[-1]
                    if b.k == 'var' and b.a[0] == pname and NullRule._get(st, pname) != 'nonnull' and not lib.fns(e.a[0]):
                        found.append('passes %s to %s at %s without a null test' % (pname, e.a[0], e.loc))
                return st
            return NullRule.event(self_, e, st, tr)

    class Dummy:
        def instance(self, *a, **k):
            pass

        def violation(self, *a, **k):
            pass
    Engine(P(Dummy(), callee, nullable, lib)).run(callee.body)
    return found[0] if found else None


def nullable_rules(R, lib):
    R.rule('R1', 'every use of a pointer obtained from a function that can return nullptr is dominated by a null test', floor=15)
    nullable = nullable_functions(lib)
    want = {'ace_time::extended::TransitionStorage::findTransition', 'ace_time::extended::TransitionStorage::findTransitionForDateTime',
            'ace_time::ExtendedZoneProcessor::findTransition', 'ace_time::BasicZoneProcessor::findMatch',
            'ace_time::BasicZoneProcessor::getTransition', 'ace_time::ZoneProcessorCacheImpl::findUsingZoneInfo',
            'ace_time::ZoneRegistrar::getZoneInfoForIndex', 'ace_time::ZoneRegistrar::getZoneInfoForName',
            'ace_time::ZoneRegistrar::getZoneInfoForId', 'ace_time::extended::Transition::letter'}
    if len(want & nullable) < 7:
        raise AnalysisError('anchor moved: only %d of the %d functions confirmed by hand to return nullptr are derived as nullable: %s'
                            % (len(want & nullable), len(want), sorted(want - nullable)))
    R.analysed['nullable_functions'] = sorted(nullable)
    n = 0
    for q, fs in sorted(lib.funcs.items()):
        if not q.startswith('ace_time::') or '::testing::' in q:
            continue
        seen_locs = set()
        for f in fs:
            if f.inst == 'primary' and any(x.inst != 'primary' for x in fs):
                continue
            if not f.loc.startswith('src/') or f.loc in seen_locs:
                continue
            seen_locs.add(f.loc)
            Engine(NullRule(R, f, nullable, lib)).run(f.body)
            n += 1
    R.analysed['functions_scanned_R1'] = n


# ---------------------------------------------------------------------------------------------------------
# R3 sentinel guards
# ---------------------------------------------------------------------------------------------------------

SENTINELS = {'Days': 'ace_time::LocalDate::kInvalidEpochDays', 'Seconds': 'ace_time::LocalDate::kInvalidEpochSeconds'}
FAMILY_CLASSES = ['ace_time::LocalDate', 'ace_time::LocalTime', 'ace_time::LocalDateTime', 'ace_time::OffsetDateTime',
                  'ace_time::ZonedDateTime']


def _is_family_accessor(name):
    return re.match(r'^to(Epoch|Unix)(Days|Seconds)$', name) or name == 'toSeconds'


def sentinel_rules(R, lib):
    R.rule('R3-to', 'each to(Epoch|Unix)(Days|Seconds)/toSeconds accessor returns the documented sentinel for every error value of its class (interpreted)', floor=14)
    R.rule('R3-for', 'each for(Epoch|Unix)(Seconds|Days)/forSeconds factory tests the sentinel before arithmetic on its argument', floor=9)
    R.rule('R3-str', 'each for*String wrapper refuses every too-short prefix of a well-formed text and never reads beyond the terminator (interpreted)', floor=4)
    guarded = {}
    fam = []
    for cls in FAMILY_CLASSES:
        for q, fs in lib.funcs.items():
            if q.startswith(cls + '::') and q.count('::') == cls.count('::') + 1:
                name = q.split('::')[-1]
                f = fs[0]
                if _is_family_accessor(name) and not f.params and 'acetime_t' in (f.node.get('type', {}).get('qualType', '')):
                    fam.append(f)
    # R3-to by interpretation (E-SEQ, typed): every accessor, called on every error value of its class that the checker can
    # build (forError(), the all-zero object, a valid object with one component replaced by that component's error value),
    # returns the documented sentinel - however the test is spelled and wherever it sits (in the accessor, in a helper,
    # in the accessor it delegates to)
    from .aeval import AEval, AObj, CxxModule, Raised, cxx_object, _copy_value
    mod = CxxModule(lib, ['ace_time::'])
    VALID = {'ace_time::LocalDate': {'mYearTiny': 1, 'mMonth': 2, 'mDay': 3}, 'ace_time::LocalTime': {'mHour': 4, 'mMinute': 5, 'mSecond': 6},
             'ace_time::TimeOffset': {'mMinutes': 60}}

    def call(qname, args, recv=None):
        fs_ = [x for x in lib.fns(qname) if len(x.params) == len(args)]
        if not fs_:
            return None
        return AEval(module=mod, typed=True, max_steps=20000).call_function(qname, list(args), recv=recv, chosen=CxxModule._Fn(fs_[0]))

    def valid_object(cls):
        o = cxx_object(lib, cls)
        for n_, v_ in list(o.attrs.items()):
            if isinstance(v_, AObj) and v_.cls:
                o.attrs[n_] = valid_object(v_.cls.replace('const ', '').strip())
        o.attrs.update(VALID.get(cls, {}))
        return o

    def error_objects(cls):
        out = []
        try:
            e = call(cls + '::forError', [])
            if isinstance(e, AObj):
                out.append(('forError()', e))
        except (Raised, AnalysisError):
            pass
        out.append(('all fields zero', cxx_object(lib, cls)))
        v = valid_object(cls)
        for n_, sub in v.attrs.items():
            if isinstance(sub, AObj) and sub.cls and lib.fns(sub.cls.replace('const ', '').strip() + '::forError'):
                try:
                    e = call(sub.cls.replace('const ', '').strip() + '::forError', [])
                except (Raised, AnalysisError):
                    continue
                w = _copy_value(v)
                w.attrs[n_] = e
                out.append(('a valid value whose %s is an error value' % n_, w))
        return out
    for f in fam:
        name = f.name.split('::')[-1]
        cls = f.name.rsplit('::', 1)[0]
        kind = 'Days' if name.endswith('Days') else 'Seconds'
        sent = SENTINELS[kind]
        if f.name == 'ace_time::LocalTime::toSeconds':
            sent = 'ace_time::LocalTime::kInvalidSeconds'
        sentv = lib.const(sent)
        n_err = 0
        bad = None
        for what, obj in error_objects(cls):
            try:
                if not call(cls + '::isError', [], recv=obj):
                    continue
                got = call(f.name, [], recv=obj)
            except Raised as x_:
                got = 'raises %s' % x_.what
            n_err += 1
            if got != sentv and bad is None:
                bad = 'called on %s (isError() is true) the accessor returns %s, not the documented sentinel %s = %d' % (what, got, sent.split('::')[-1], sentv)
        R.instance('R3-to', f.name, f.loc, '%d error values interpreted' % n_err)
        if n_err == 0:
            raise AnalysisError('%s: no error value of %s could be built' % (f.loc, cls))
        if bad:
            R.violation('R3-to', f.name, f.loc, bad)
    # factories
    for cls in FAMILY_CLASSES:
        for q, fs in lib.funcs.items():
            if not (q.startswith(cls + '::') and q.count('::') == cls.count('::') + 1):
                continue
            name = q.split('::')[-1]
            if not (re.match(r'^for(Epoch|Unix)(Seconds|Days)$', name) or name == 'forSeconds'):
                continue
            f = fs[0]
            if not f.params or f.params[0][1] != 'int':
                continue
            kind = 'Days' if name.endswith('Days') else 'Seconds'
            sents = {lib.const(SENTINELS[kind])}
            if cls.endswith('LocalTime'):
                sents = {lib.const('ace_time::LocalTime::kInvalidSeconds')}

            top = f

            def factory_rule(top, f, p0, depth):
                # R3-for on function f for its parameter p0 (the value the factory `top` was given).  A function that does nothing
                # with the value but hand it on unchanged - to another factory, a constructor, a helper - is decided in the function
                # that receives it (three levels at most).
                forwards = []
                class FR(Rule):
                    def initial(self_):
                        return ['untested']

                    def refine(self_, cond, st, truth):
                        c = cond
                        while c.k == 'cast':
                            c = c.a[2]
                        if c.k == 'bin' and c.a[0] in ('==', '!='):
                            for x, y in ((c.a[1], c.a[2]), (c.a[2], c.a[1])):
                                xv = x
                                while xv.k == 'cast':
                                    xv = xv.a[2]
                                yv = y
                                while yv.k == 'cast':
                                    yv = yv.a[2]
                                val = lib.global_value(yv.a[0]) if yv.k == 'var' else (yv.a[0] if yv.k == 'const' else None)
                                if path_of(xv) == p0 and val in sents:
                                    is_sentinel = (c.a[0] == '==') == truth
                                    return 'sentinel' if is_sentinel else 'valid'
                        return st

                    def event(self_, e, st, tr):
                        if e.k in ('call', 'init', 'delegate') and st == 'untested':
                            args = e.a[2] if e.k == 'call' else e.a[1]
                            for i_, a_ in enumerate(args):
                                while a_.k == 'cast':
                                    a_ = a_.a[2]
                                if a_.k == 'var' and path_of(a_) == p0:
                                    forwards.append((e, i_))     # handed on unchanged: decided in the function that receives it
                        if e.k == 'bin' and e.a[0] in ('+', '-', '*', '/', '%') and st != 'valid':
                            if any(path_of(x) == p0 for x in walk_expr(e) if x.k == 'var'):
                                c = top.name
                                R.instance('R3-for', c, e.loc, 'arithmetic on the argument')
                                R.violation('R3-for', c, e.loc, 'arithmetic %s on the argument happens on a path where it may still be the error sentinel' % show(e)[:80], detail=list(tr))
                        return st

                    def assign(self_, s, st, tr):
                        if s.k == 'assign' and s.a[2] != '=' and path_of(s.a[0]) == p0 and st != 'valid':
                            R.instance('R3-for', top.name, s.loc)
                            R.violation('R3-for', top.name, s.loc, 'the argument is modified while it may still be the error sentinel', detail=list(tr))
                        return st

                    def at_exit(self_, kind_, stmt, st, tr):
                        if depth == 0:
                            R.instance('R3-for', top.name, stmt.loc if stmt is not None else f.loc, 'exit on %s path' % st)
                Engine(FR()).run(f.body)
                tested = any(True for s in walk_stmts(f.body) for e0 in stmt_exprs(s) for e in walk_expr(e0)
                             if e.k == 'bin' and e.a[0] in ('==', '!=') and any(path_of(x) == p0 for x in walk_expr(e) if x.k == 'var'))
                if tested:
                    return
                # not tested here: where does the value go?
                followed = False
                for e, i_ in forwards:
                    if depth >= 3:
                        break
                    if e.k == 'call':
                        cands = [g for g in lib.fns(e.a[0]) if len(g.params) == len(e.a[2])]
                    else:
                        q_ = (e.a[0] or '').replace('const ', '').strip()
                        cands = [g for g in lib.fns(q_ + '::' + q_.split('::')[-1]) if len(g.params) == len(e.a[1])] if q_ else []
                        if not cands and '::' in f.name:
                            q2 = f.name.rsplit('::', 1)[0]
                            cands = [g for g in lib.fns(q2 + '::' + q2.split('::')[-1]) if len(g.params) == len(e.a[1])]
                    cands = [g for g in cands if i_ < len(g.params) and (g.params[i_][1] or '').replace('const ', '').strip() == 'int' and g is not f]
                    for g in cands[:2]:
                        followed = True
                        factory_rule(top, g, g.params[i_][0], depth + 1)
                if not followed:
                    R.violation('R3-for', top.name, f.loc, 'the factory never compares its argument with the error sentinel'
                                + ('' if depth == 0 else ' (followed into %s)' % f.name))
            factory_rule(f, f, f.params[0][0], 0)
    # string wrappers, interpreted (E-SEQ, typed): every prefix of a well-formed text that is shorter than the text is
    # refused with an error value, and no prefix - nor the full text - makes the parser read beyond the terminator
    from .aeval import Ref as _Ref, Text as _Text
    FULL = {'LocalDate': '2019-03-10', 'LocalTime': '12:34:56', 'LocalDateTime': '2019-03-10T12:34:56', 'TimeOffset': '+05:30',
            'OffsetDateTime': '2019-03-10T12:34:56+05:30'}
    sintr = {'strlen': lambda ev, recv, args: args[0].box.length() if isinstance(args[0], _Ref) and isinstance(args[0].box, _Text) else len(args[0])}
    for q, fs in sorted(lib.funcs.items()):
        if not q.startswith('ace_time::'):
            continue
        name = q.split('::')[-1]
        cls = q.split('::')[-2] if q.count('::') >= 2 else ''
        if not re.match(r'^for\w*String$', name) or cls not in FULL:
            continue
        for f in fs:
            if len(f.params) != 1 or 'const char *' != (f.params[0][1] or ''):
                continue
            full = FULL[cls]
            bad_ = None
            n_ = 0
            for k in range(0, len(full) + 1):
                txt = _Text(full[:k])
                try:
                    r = AEval(module=mod, intrinsics=sintr, typed=True, max_steps=20000).call_function(f.name, [_Ref(txt, 0)], chosen=CxxModule._Fn(f))
                    err = call('ace_time::%s::isError' % cls, [], recv=r) if isinstance(r, AObj) else None
                except IndexError:
                    bad_ = bad_ or 'a string of %d characters (%r) makes the parser read beyond its terminator: the chainable parser is reached on a string whose length was not tested' % (k, full[:k])
                    continue
                except Raised as x_:
                    bad_ = bad_ or 'a string of %d characters raises %s' % (k, x_.what)
                    continue
                n_ += 1
                if k < len(full) and not err:
                    bad_ = bad_ or 'a too-short string (%d characters, %r) does not produce forError()' % (k, full[:k])
                if k == len(full) and err:
                    bad_ = bad_ or 'the well-formed text %r is refused' % full
            R.instance('R3-str', f.name, f.loc, '%d prefixes interpreted' % n_)
            if bad_:
                R.violation('R3-str', f.name, f.loc, bad_)


def _uncast(e):
    while e is not None and e.k == 'cast':
        e = e.a[2]
    return e


def _is_strlen(e, p0):
    return e is not None and e.k == 'call' and e.a[0] == 'strlen' and len(e.a[2]) == 1 and path_of(e.a[2][0]) == p0


def _pure_receiver(e):
    """receiver is this / a member / a member accessor chain (no arithmetic)."""
    if e is None:
        return True
    if e.k in ('this', 'var', 'field'):
        return True
    if e.k == 'call':
        return not e.a[2] and _pure_receiver(e.a[1])
    return False


# ---------------------------------------------------------------------------------------------------------
# R4 range guard before fill; error returns
# ---------------------------------------------------------------------------------------------------------

def reads_zone_data(lib, fn, memo, depth=0):
    """fn (transitively) reads eras/rules of the zone info."""
    if fn.name in memo:
        return memo[fn.name]
    memo[fn.name] = False
    r = False
    for e in all_exprs(fn.body):
        if e.k == 'call':
            n = e.a[0]
            if n.endswith('ZoneInfoBroker::era') or n.endswith('ZoneInfoBroker::numEras') or n.endswith('ZonePolicyBroker::rule'):
                r = True
                break
            if depth < 6:
                cs = lib.fns(n)
                if cs and cs[0].name.startswith('ace_time::') and reads_zone_data(lib, cs[0], memo, depth + 1):
                    r = True
                    break
    memo[fn.name] = r
    return r


def range_rules(R, lib):
    R.rule('R4', 'in init() every call that reads eras/rules to fill the cache is control dependent on the '
                 '[startYear-1, untilYear] test', floor=6)
    R.rule('R4-err', 'when init() fails the accessors return TimeOffset::forError() / OffsetDateTime::forError() / ""', floor=8)
    memo = {}
    for cls in ('ace_time::BasicZoneProcessor', 'ace_time::ExtendedZoneProcessor'):
        inits = [f for f in lib.fns(cls + '::init') if f.params and 'LocalDate' in (f.params[0][1] or '')]
        if not inits:
            raise AnalysisError('anchor vanished: %s::init(const LocalDate&)' % cls)
        f = inits[0]
        seen_test = []

        class GR(Rule):
            """state: 'outside' once a bound test has failed, else the set of bounds ({'lo', 'hi'}) known to hold; the year is
            'inside' when both hold.  Each leaf comparison is read for what it says about its bound - `year < startYear - 1`
            true means below the range, `startYear - 1 <= year` true means the lower bound holds - so the range test may be
            written as a rejection or as an acceptance, in one condition or in several."""

            def initial(self_):
                return [frozenset()]

            def refine(self_, cond, st, truth):
                c = cond
                while c.k == 'cast':
                    c = c.a[2]
                if not (c.k == 'bin' and c.a[0] in ('<', '>', '<=', '>=')):
                    return st
                sides = []
                for x in (c.a[1], c.a[2]):
                    calls = [e.a[0].split('::')[-1] for e in walk_expr(x) if e.k == 'call']
                    sides.append('lo' if 'startYear' in calls else 'hi' if 'untilYear' in calls else None)
                if sides.count(None) != 1:
                    return st
                seen_test.append(cond.loc)
                bound = sides[0] or sides[1]
                op = c.a[0]
                if sides[0] is not None:       # bound OP year  ->  year OP' bound
                    op = {'<': '>', '>': '<', '<=': '>=', '>=': '<='}[op]
                if not truth:
                    op = {'<': '>=', '>': '<=', '<=': '>', '>=': '<'}[op]
                # now: year op bound holds
                holds = op in ('>', '>=') if bound == 'lo' else op in ('<', '<=')
                if st == 'outside':
                    return st
                return (st | {bound}) if holds else 'outside'

            def event(self_, e, st, tr):
                if e.k == 'call':
                    cs = lib.fns(e.a[0])
                    if cs and cs[0].name.startswith(cls + '::') and reads_zone_data(lib, cs[0], memo):
                        c = '%s->%s' % (f.name, e.a[0].split('::')[-1])
                        R.instance('R4', c, e.loc, 'fill call')
                        if st != frozenset({'lo', 'hi'}):
                            R.violation('R4', c, e.loc, 'the cache is filled from the zone data on a path where the year was not tested against [startYear-1, untilYear]', detail=list(tr))
                return st

            def at_exit(self_, kind_, stmt, st, tr):
                if kind_ == 'return' and st == 'outside':
                    e = stmt.a[0]
                    while e.k == 'cast':
                        e = e.a[2]
                    R.instance('R4', f.name + ':outside', stmt.loc)
                    if not (e.k == 'const' and e.a[0] == 0):
                        R.violation('R4', f.name + ':outside', stmt.loc, 'init() does not report failure for a year outside the zone data', detail=list(tr))
        Engine(GR()).run(f.body)
        if not seen_test:
            raise AnalysisError('%s: no [startYear, untilYear] test found in init()' % f.loc)
        accept_rule(R, lib, cls, f)
        # accessors
        for acc, want in (('getUtcOffset', 'offset'), ('getDeltaOffset', 'offset'), ('getAbbrev', 'str'), ('getOffsetDateTime', 'odt')):
            af = lib.fn(cls + '::' + acc)
            error_return_rule(R, lib, af, want)


def accept_rule(R, lib, cls, f):
    """init() must accept every UTC date of the supported years [startYear, untilYear): its guarded summary is evaluated
    on the corner dates (first/second day and last day of the first, a middle and the last supported year) with
    startYear/untilYear symbolic-but-fixed; the path taken must be a success path.  (The basic processor moves the cache
    year back by one on 1 January, so its guard has to admit startYear - 1.)"""
    from .gnf import SymExec, Poly, eval_formula, arith_assign
    R.rule('R4-accept', 'init() accepts every date of the supported years [startYear, untilYear) on a cold cache', floor=2)
    s = SymExec(fold_global=lib.global_value).run(f.name, f.body, {})
    S_, U_ = 2000, 2050
    epoch = lib.const('ace_time::LocalDate::kEpochYear')
    c = '%s:accepts[startYear,untilYear)' % f.name
    R.instance('R4-accept', c, f.loc, '%d paths' % len(s.paths))
    bad = []
    R.rule('R4-reject', 'init() refuses every date at least a year outside the zone data (before startYear - 1, after untilYear) on a cold cache', floor=2)
    R.instance('R4-reject', '%s:rejects-outside' % f.name, f.loc)
    outside = ((S_ - 2, 6, 15), (S_ - 2, 12, 31), (S_ - 3, 1, 1), (U_ + 1, 1, 2), (U_ + 1, 6, 15), (U_ + 1, 12, 31), (U_ + 2, 1, 1), (1873, 1, 1), (2127, 12, 31))
    bad_out = []
    for (y, m, d) in ((S_, 1, 1), (S_, 1, 2), (S_, 12, 31), (S_ + 1, 1, 1), (2025, 6, 15), (U_ - 1, 1, 1), (U_ - 1, 12, 31)) + outside:
        vals = {'year': y, 'yearTiny': y - epoch, 'month': m, 'day': d, 'startYear': S_, 'untilYear': U_}
        base = arith_assign({})

        def assign(a, vals=vals, base=base):
            if a[0] == 'fn':
                nm = a[1].split('::')[-1]
                if nm in vals:
                    return vals[nm]
                if nm == 'isFilled':
                    return 0
                return None
            if a[0] == 'sym':
                # a cold cache: nothing is filled; the cached year fields hold no year of the tested range
                if a[1].startswith('this.'):
                    return 0 if 'IsFilled' in a[1] else -32768
                if a[1] == 'null':
                    return 0
                return None
            # arithmetic atoms over the above
            from .gnf import eval_poly
            try:
                if a[0] in ('tdiv', 'fdiv', 'div', 'tmod', 'fmod', 'mod'):
                    x = eval_poly(Poly(dict(a[1])), assign)
                    z = eval_poly(Poly(dict(a[2])), assign)
                    q = abs(x) // abs(z)
                    q = q if (x >= 0) == (z >= 0) else -q
                    return q if a[0] in ('tdiv', 'div') else x // z if a[0] == 'fdiv' else x - q * z if a[0] in ('tmod', 'mod') else x % z
                if a[0] == 'cmp':
                    x = eval_poly(Poly(dict(a[2])), assign)
                    z = eval_poly(Poly(dict(a[3])), assign)
                    return int({'<': x < z, '<=': x <= z, '>': x > z, '>=': x >= z, '==': x == z, '!=': x != z}[a[1]])
            except KeyError:
                return None
            return None
        outcomes = set()
        undecided = False
        for g, kind, res, eff in s.paths:
            try:
                if eval_formula(g, assign):
                    outcomes.add((kind, Poly(dict(res)).const_value() if res is not None and Poly(dict(res)).is_const() else None))
            except KeyError:
                undecided = True
        if undecided or len(outcomes) != 1:
            raise AnalysisError('%s: the guards of init() could not be evaluated for the date %04d-%02d-%02d (%s)' % (f.loc, y, m, d, sorted(outcomes, key=str)))
        (kind, val), = outcomes
        if (y, m, d) in outside:
            if not (kind == 'return' and val == 0):
                bad_out.append('%04d-%02d-%02d' % (y, m, d))
        elif not (kind == 'return' and val == 1):
            bad.append('%04d-%02d-%02d' % (y, m, d))
    if bad_out:
        R.violation('R4-reject', '%s:rejects-outside' % f.name, f.loc, 'with startYear=%d and untilYear=%d a cold init() succeeds for the UTC date(s) %s, a year or more outside the '
                    'zone data: offsets and abbreviations are computed from eras and rules that do not cover those years instead of the error value' % (S_, U_, ', '.join(bad_out)))
    if bad:
        R.violation('R4-accept', c, f.loc, 'with startYear=%d and untilYear=%d a cold init() fails for the UTC date(s) %s, which lie in the supported years: every '
                    'offset, abbreviation and conversion for those instants is the error value' % (S_, U_, ', '.join(bad)))


def _is_error_value(lib, e, want, defs, depth=0):
    while e.k == 'cast':
        e = e.a[2]
    if e.k == 'var' and e.a[0] in defs and depth < 4:
        return any(_is_error_value(lib, d, want, defs, depth + 1) for d in defs[e.a[0]])
    if e.k == 'cond':
        return _is_error_value(lib, e.a[2], want, defs, depth + 1)
    if want == 'str':
        return e.k == 'str' and e.a[0] == ''
    if e.k == 'call' and e.a[0].endswith('::forError'):
        return True
    if e.k == 'call' and e.a[0].endswith('TimeOffset::forMinutes') and e.a[2]:
        a = e.a[2][0]
        while a.k == 'cast':
            a = a.a[2]
        if a.k == 'var' and lib.global_value(a.a[0]) == lib.const('ace_time::TimeOffset::kErrorMinutes'):
            return True
        if a.k == 'var' and a.a[0] in defs and depth < 4:
            return any(_is_error_value(lib, E('call', e.a[0], None, [d]), want, defs, depth + 1) for d in defs[a.a[0]])
        if a.k == 'cond':
            return _is_error_value(lib, E('call', e.a[0], None, [a.a[2]]), want, defs, depth + 1)
    if e.k == 'cond':
        return _is_error_value(lib, e.a[2], want, defs, depth + 1)
    if want == 'odt' and e.k == 'call' and e.a[0].endswith('OffsetDateTime::forLocalDateTimeAndOffset') and len(e.a[2]) == 2:
        return _is_error_value(lib, e.a[2][1], 'offset', defs, depth + 1)
    return False


def error_return_rule(R, lib, f, want):
    """state: 'ok' | 'failed' (a local assigned from init()/getTransition() tested false / null)."""
    succ_vars = set()
    defs = {}
    for s in walk_stmts(f.body):
        if s.k == 'decl' and s.a[2] is not None:
            defs.setdefault(s.a[0], []).append(s.a[2])
            c = s.a[2]
            while c.k == 'cast':
                c = c.a[2]
            if c.k == 'call' and c.a[0].split('::')[-1] in ('init', 'getTransition'):
                succ_vars.add(s.a[0])
        elif s.k == 'assign' and s.a[0].k == 'var':
            defs.setdefault(s.a[0].a[0], []).append(s.a[1])
    def direct_test(cond):
        """the condition is the call of init()/getTransition() itself (possibly negated / compared with null or false):
        -> True when the condition being true means success, False when it means failure, None when it is no such test"""
        c, pos = cond, True
        while True:
            if c.k == 'cast' or (c.k == 'un' and c.a[0] == 'bool'):
                c = c.a[-1]
            elif c.k == 'un' and c.a[0] == '!':
                c, pos = c.a[1], not pos
            elif c.k == 'bin' and c.a[0] in ('==', '!=') and any(x.k in ('null', 'const') for x in (c.a[1], c.a[2])):
                other = c.a[2] if c.a[1].k not in ('null', 'const') else c.a[1]
                lit = c.a[1] if other is c.a[2] else c.a[2]
                falsy = lit.k == 'null' or not lit.a[0]
                pos = pos if ((c.a[0] == '!=') == falsy) else not pos
                c = other
            else:
                break
        if c.k == 'call' and c.a[0].split('::')[-1] in ('init', 'getTransition'):
            return pos
        return None
    direct = any(direct_test(s.a[0]) is not None for s in walk_stmts(f.body) if s.k == 'if')
    if not succ_vars and not direct:
        raise AnalysisError('%s: accessor neither captures nor tests the result of init()/getTransition()' % f.loc)

    class ER(Rule):
        """state: (status, last local assigned on the failed path, locals known to be null on this path)"""

        def initial(self_):
            return [('unknown', None, frozenset())]

        def refine(self_, cond, st, truth):
            p, positive = null_test(cond)
            if p in succ_vars:
                return ('ok' if truth == positive else 'failed', st[1], st[2])
            d = direct_test(cond)
            if d is not None:
                return ('ok' if truth == d else 'failed', st[1], st[2])
            if p is not None and p in st[2] and truth == positive:
                return None         # a pointer set to null on this path does not test as non-null
            return st

        def assign(self_, s, st, tr):
            name = s.a[0] if s.k == 'decl' else (s.a[0].a[0] if s.a[0].k == 'var' else None)
            val = s.a[2] if s.k == 'decl' else s.a[1]
            if name is not None:
                v = val
                while v is not None and v.k in ('cast', 'ptrcast'):
                    v = v.a[-1]
                is_null = v is not None and (v.k == 'null' or (v.k == 'var' and v.a[0] in st[2]))      # null, or a copy of a local that is null here
                nulls = (st[2] | {name}) if is_null else (st[2] - {name})
                st = (st[0], st[1], nulls)
            # remember the last value assigned to locals on the failed path
            if st[0] == 'failed' and s.k == 'assign' and s.a[0].k == 'var':
                return (st[0], (s.a[0].a[0], id(s)), st[2])
            return st

        def at_exit(self_, kind_, stmt, st, tr):
            if kind_ != 'return' or st[0] != 'failed':
                return
            e = stmt.a[0]
            c = f.name + ':failed'
            R.instance('R4-err', c, stmt.loc)
            ok = _is_error_value(lib, e, want, defs)
            if not ok:
                R.violation('R4-err', c, stmt.loc, 'on the path where the cache could not be initialised the accessor returns %s, not an error value' % show(e)[:100], detail=list(tr))
    Engine(ER()).run(f.body)


# ---------------------------------------------------------------------------------------------------------
# R5 table-side bounds
# ---------------------------------------------------------------------------------------------------------

def table_rules(cfg, R, lib):
    R.rule('R5-len', 'numEras/numRules/numLetters equal the lengths of the arrays they describe; numEras >= 1', floor=800)
    R.rule('R5-anchor', 'every policy used by a zone has a rule that starts before the first year the processors ask for', floor=140)
    R.rule('R5-letter', 'every letter cell is a printable character or an index into the letters array of its policy', floor=900)
    R.rule('R5-buf', 'recorded transitionBufSize is below the capacity of the transition pool', floor=387)
    kmax = lib.const('ace_time::ExtendedZoneProcessor::kMaxTransitions')
    R.analysed['kMaxTransitions'] = kmax
    for db in ('zonedb', 'zonedbx'):
        T = tables.CxxTables(cfg, db)
        start = T.context['startYear']
        for short, info in T.infos.items():
            c = '%s::%s' % (db, short)
            R.instance('R5-len', c, info.loc)
            eras = info['eras']
            n = len(T.eras[eras.name]) if isinstance(eras, Ref) and eras.name in T.eras else -1
            if info['numEras'] != n or n < 1:
                R.violation('R5-len', c, info.loc, 'numEras=%r, era array has %d entries' % (info['numEras'], n))
            if db == 'zonedbx':
                R.instance('R5-buf', c, info.loc, 'transitionBufSize=%r' % info['transitionBufSize'])
                if not (0 < info['transitionBufSize'] < kmax):
                    R.violation('R5-buf', c, info.loc, 'transitionBufSize=%r is not below kMaxTransitions=%d' % (info['transitionBufSize'], kmax))
        used = set()
        for arr, entries in T.eras.items():
            for e in entries:
                if isinstance(e['zonePolicy'], Ref):
                    used.add(e['zonePolicy'].name)
        for pname, pol in T.policies.items():
            c = '%s::%s' % (db, pname)
            R.instance('R5-len', c, pol.loc)
            rules = T.policy_rules(pname)
            letters = T.policy_letters(pname)
            if pol['numRules'] != len(rules) or len(rules) < 1:
                R.violation('R5-len', c, pol.loc, 'numRules=%r, rule array has %d entries' % (pol['numRules'], len(rules)))
            if pol['numLetters'] != (len(letters) if letters else 0):
                R.violation('R5-len', c, pol.loc, 'numLetters=%r, letters array has %d entries' % (pol['numLetters'], len(letters) if letters else 0))
            if pname in used:
                R.instance('R5-anchor', c, pol.loc)
                # the processors look up the "most recent prior" rule for years >= startYear - 1
                lim = start - 1 - 2000
                if not any(r['fromYearTiny'] < lim for r in rules):
                    R.violation('R5-anchor', c, pol.loc, 'no rule of this policy starts before %d: a look-up for year %d finds no prior rule' % (start - 1, start - 1))
            for r in rules:
                rc = '%s::%s[%d]' % (db, r.owner, r.index)
                R.instance('R5-letter', rc, r.loc)
                v = r['letter'] & 0xff
                nl = len(letters) if letters else 0
                if v < 32 and v >= nl:
                    R.violation('R5-letter', rc, r.loc, 'letter cell %d is neither printable nor an index below numLetters=%d' % (v, nl))
        for p in used - set(T.policies):
            R.instance('R5-anchor', '%s::%s' % (db, p), '?')
            R.violation('R5-anchor', '%s::%s' % (db, p), '?', 'zone era references an undefined policy')


def estimator_rule(cfg, R):
    """transitionBufSize recorded in the extended tables is the maximum, over matches, of (candidates of the match +
    transitions already kept for the year): _update_transition_buffer_size() reads len(self.transitions) for the second
    term, so every loop through which it is reached has to grow self.transitions per iteration - an accumulation moved
    behind the loop makes the estimate ignore the earlier matches, and the pool of the C++ processor then needs more
    slots than the table records."""
    import ast
    from . import py
    m = py.load(cfg, 'tools/zonedb/zone_specifier.py')
    R.rule('R5-est', 'the buffer-size estimator sees the transitions of earlier matches: self.transitions grows inside every loop that reaches it', floor=1)
    cls = 'ZoneSpecifier'
    reader = cls + '._update_transition_buffer_size'
    rf = m.fn(reader)
    reads = {x.args[0].attr for x in ast.walk(rf.node) if isinstance(x, ast.Call) and isinstance(x.func, ast.Name) and x.func.id == 'len'
             and x.args and isinstance(x.args[0], ast.Attribute) and isinstance(x.args[0].value, ast.Name) and x.args[0].value.id == 'self'}
    if not reads:
        raise AnalysisError('%s: the estimator no longer reads len(self.<attr>) (anchor moved)' % rf.loc)
    memo_reach, memo_write = {}, {}

    def self_calls(node):
        return [x.func.attr for x in ast.walk(node) if isinstance(x, ast.Call) and isinstance(x.func, ast.Attribute)
                and isinstance(x.func.value, ast.Name) and x.func.value.id == 'self']

    def reaches_reader(name, depth=0):
        q = '%s.%s' % (cls, name)
        if q == reader:
            return True
        if q in memo_reach:
            return memo_reach[q]
        memo_reach[q] = False
        g = m.funcs.get(q)
        if g is not None and depth < 6:
            memo_reach[q] = any(reaches_reader(c, depth + 1) for c in self_calls(g.node))
        return memo_reach[q]

    def writes(node, attr, depth=0):
        for x in ast.walk(node):
            if isinstance(x, ast.Call) and isinstance(x.func, ast.Attribute) and x.func.attr in ('extend', 'append', 'insert') \
                    and isinstance(x.func.value, ast.Attribute) and x.func.value.attr == attr and isinstance(x.func.value.value, ast.Name) and x.func.value.value.id == 'self':
                return True
            if isinstance(x, (ast.Assign, ast.AugAssign)):
                for t in (x.targets if isinstance(x, ast.Assign) else [x.target]):
                    if isinstance(t, ast.Attribute) and t.attr == attr and isinstance(t.value, ast.Name) and t.value.id == 'self':
                        return True
        if depth < 5:
            for c in self_calls(node):
                q = '%s.%s' % (cls, c)
                if (q, attr) not in memo_write:
                    memo_write[(q, attr)] = False
                    g = m.funcs.get(q)
                    memo_write[(q, attr)] = g is not None and writes(g.node, attr, depth + 1)
                if memo_write[(q, attr)]:
                    return True
        return False
    n = 0
    for q, g in m.funcs.items():
        if g.cls != cls:
            continue
        for lp in [x for x in ast.walk(g.node) if isinstance(x, (ast.For, ast.While))]:
            body = ast.Module(body=lp.body, type_ignores=[])
            if not any(reaches_reader(c) for c in self_calls(body)):
                continue
            for attr in sorted(reads):
                n += 1
                c = '%s:loop@%d:%s' % (q, lp.lineno - g.node.lineno, attr)
                R.instance('R5-est', c, m.loc(lp))
                if not writes(body, attr):
                    R.violation('R5-est', c, m.loc(lp), 'the loop reaches _update_transition_buffer_size(), which adds len(self.%s), but self.%s is not grown inside the loop: '
                                'the estimate for a later match ignores the transitions of the earlier matches, so the recorded transitionBufSize can be '
                                'smaller than what ExtendedZoneProcessor needs' % (attr, attr))
    if not n:
        raise AnalysisError('%s: no loop reaches the buffer-size estimator (anchor moved)' % rf.loc)


VALUE_TYPES = ('LocalDate', 'LocalTime', 'LocalDateTime', 'OffsetDateTime', 'TimeOffset')
COMPOSITES = ('LocalDateTime', 'OffsetDateTime', 'ZonedDateTime')


def composite_error_rule(R, lib):
    """A composite date-time is an error exactly when one of its date/time/offset components is: isError() of
    LocalDateTime, OffsetDateTime and ZonedDateTime is the disjunction of isError() over the members whose type is one of
    the value types (the TimeZone member of ZonedDateTime is excluded: every factory returns forError() for an error zone,
    which C09-R3 and C16 decide)."""
    from .gnf import SymExec, Poly, formula_atoms, eval_formula
    import itertools
    R.rule('R7', 'isError() of a composite date-time is the disjunction of isError() of its date, time and offset members', floor=3)
    for cls in COMPOSITES:
        q = 'ace_time::%s' % cls
        f = lib.fn(q + '::isError')
        members = [n for n, t, _node in lib.fields(q) if any((t or '').replace('const', '').strip() in ('ace_time::' + v, v) for v in VALUE_TYPES)]
        c = '%s::isError' % cls
        R.instance('R7', c, f.loc, 'members %s' % members)
        if not members:
            raise AnalysisError('%s: %s has no date/time/offset members (anchor moved)' % (f.loc, cls))
        sx = SymExec(fold_global=lib.global_value)
        sx.bool_return = True
        s = sx.run(f.name, f.body, {})
        atoms = {}
        for g, kind, res, eff in s.paths:
            for a in formula_atoms(g):
                if a[0] == 'bool':
                    p = Poly(dict(a[1]))
                    at = list(p.atoms())
                    if len(at) == 1 and at[0][0] == 'fn' and at[0][1].endswith('::isError') and len(at[0][2]) == 1:
                        recv = Poly(dict(at[0][2][0]))
                        ra = list(recv.atoms())
                        if len(ra) == 1 and ra[0][0] == 'sym' and ra[0][1].startswith('this.'):
                            atoms[ra[0][1][5:]] = at[0]
        missing = [m for m in members if m not in atoms]
        if missing:
            R.violation('R7', c, f.loc, 'isError() does not consult %s.isError(): a value whose only invalid component is %s passes for valid '
                        '(it is printed, converted and compared as if it were a date-time)' % (missing[0], missing[0]))
            continue
        names = sorted(atoms)
        bad = None
        for bits in itertools.product((0, 1), repeat=len(names)):
            env = {atoms[n]: b for n, b in zip(names, bits)}
            vals = set()
            for g, kind, res, eff in s.paths:
                try:
                    if eval_formula(g, lambda a: env.get(a)):
                        vals.add(Poly(dict(res)).const_value() if res is not None and Poly(dict(res)).is_const() else None)
                except KeyError:
                    vals.add(None)
            want = int(any(b for n, b in zip(names, bits) if n in members))
            if vals != {want}:
                bad = dict(zip(names, bits))
                break
        if bad is not None:
            R.violation('R7', c, f.loc, 'isError() is not the disjunction of its components: for %s it answers %s' % (bad, sorted(vals, key=str)))


def total_predicate_rule(R, lib):
    """isError() and the field getters of the date / time value types must be answerable for *every* content of the stored bytes
    (values come out of EEPROM, out of the mutation helpers, out of forComponents with unchecked arguments): each is interpreted
    (E-SEQ, typed, the real bodies incl. the month-length and weekday tables) on every combination of boundary values of the
    stored fields; a read outside a constant table is reported with the field values.  The printing and conversion members are
    asked only of values whose isError() is false, on the same combinations."""
    from .aeval import AEval, AObj, CxxModule, Raised, cxx_object
    import itertools
    R.rule('R2-table', 'isError() of the date / time value types, and the conversions of the values it admits, read the constant tables inside their bounds for every content of the stored fields (interpreted)', floor=3)
    mod = CxxModule(lib, ['ace_time::'])
    vals8 = {'year': (-128, -127, -1, 0, 99, 127), 'month': (0, 1, 2, 12, 13, 255), 'day': (0, 1, 28, 29, 30, 31, 32, 255),
             'hour': (0, 23, 24, 25, 255), 'minute': (0, 59, 60, 255), 'second': (0, 59, 60, 255)}

    def domain(fname):
        n = fname.lower()
        for k in vals8:
            if k in n:
                return vals8[k]
        return None

    def call(f, recv):
        return AEval(module=mod, typed=True, max_steps=50000).call_function(f.name, [], recv=recv, chosen=CxxModule._Fn(f))
    for cls in ('LocalDate', 'LocalTime', 'LocalDateTime'):
        q = 'ace_time::' + cls
        f = lib.fn(q + '::isError')
        proto = cxx_object(lib, q)
        leaves = []           # (path of attribute names, domain)

        def walk(o, path):
            for n_, v_ in o.attrs.items():
                if isinstance(v_, AObj):
                    walk(v_, path + (n_,))
                elif domain(n_) is not None:
                    leaves.append((path + (n_,), domain(n_)))
        walk(proto, ())
        if not leaves:
            raise AnalysisError('%s: no year/month/day/hour/minute/second members found in %s' % (f.loc, cls))
        after = [lib.fn(q + '::' + m) for m in ('toEpochDays', 'toEpochSeconds', 'dayOfWeek', 'toSeconds') if lib.has_fn(q + '::' + m)]
        doms = [d for _p, d in leaves]
        if cls == 'LocalDateTime':
            doms = [d[:4] for d in doms]         # the product of six fields: the first four boundary values of each
        n, bad = 0, {}
        members = [('isError', f)] + [(g.name.split('::')[-1], g) for g in after if not g.params]
        for combo in itertools.product(*doms):
            o = cxx_object(lib, q)
            for (path, _d), v in zip(leaves, combo):
                tgt = o
                for k in path[:-1]:
                    tgt = tgt.attrs[k]
                tgt.attrs[path[-1]] = AEval._wrap(v, (tgt.ftypes or {}).get(path[-1])) if getattr(tgt, 'ftypes', None) else v
            n += 1
            for mname, g in members:
                if mname in bad:
                    continue
                try:
                    call(g, o)
                except IndexError as x_:
                    bad[mname] = '%s() with the stored fields %s: a constant table is read outside its bounds (%s)' % (
                        mname, ', '.join('%s=%d' % ('.'.join(p_), v_) for (p_, _d), v_ in zip(leaves, combo)), x_)
                except Raised as x_:
                    bad[mname] = '%s() with the stored fields %s: raises %s' % (mname, ', '.join('%s=%d' % ('.'.join(p_), v_) for (p_, _d), v_ in zip(leaves, combo)), x_.what)
        for mname, g in members:
            c = '%s::%s:stored-fields' % (cls, mname)
            R.instance('R2-table', c, g.loc, '%d field combinations interpreted' % n, n=1)
            if mname in bad:
                R.violation('R2-table', c, g.loc, bad[mname])
    g = lib.fn('ace_time::LocalDate::daysInMonth')
    c = 'LocalDate::daysInMonth:arguments'
    R.instance('R2-table', c, g.loc)
    for month in (0, 1, 2, 12, 13, 255):
        try:
            AEval(module=mod, typed=True, max_steps=5000).call_function(g.name, [2001, month], chosen=CxxModule._Fn(g))
        except IndexError as x_:
            R.violation('R2-table', c, g.loc, 'daysInMonth(2001, %d) reads the month-length table outside its bounds (%s)' % (month, x_))
            break


def run(cfg):
    R = Report('C09', cfg)
    lib = cxx.load_lib(cfg)
    R.analysed['translation_units'] = ['tu/lib.cpp', 'tu/tables_zonedb.cpp', 'tu/tables_zonedbx.cpp']
    composite_error_rule(R, lib)
    total_predicate_rule(R, lib)
    estimator_rule(cfg, R)
    from . import rules_C09c
    rules_C09c.overflow_rules(R, lib)
    nullable_rules(R, lib)
    sentinel_rules(R, lib)
    range_rules(R, lib)
    table_rules(cfg, R, lib)
    from . import rules_C09b
    rules_C09b.store_rules(cfg, R, lib)
    from . import rules_C02
    rules_C02.five_slot_rule(cfg, R, lib, tables.CxxTables(cfg, 'zonedb'), rid='R5-slots')
    return R


SELFTEST = [
    dict(id='year-narrowed-without-gate', file='src/ace_time/LocalDateTime.h',
         find='      int8_t yearTiny = LocalDate::isYearValid(year)\n          ? year - LocalDate::kEpochYear\n          : LocalDate::kInvalidYearTiny;\n      return forTinyComponents(yearTiny, month, day, hour, minute, second);',
         replace='      return forTinyComponents(year - LocalDate::kEpochYear, month, day, hour, minute, second);', rule='R9', construct='LocalDateTime'),
    dict(id='year-gate-as-if-statement-silent', file='src/ace_time/LocalDate.h',
         find='      int8_t yearTiny = isYearValid(year)\n          ? year - kEpochYear : kInvalidYearTiny;',
         replace='      int8_t yearTiny = kInvalidYearTiny;\n      if (isYearValid(year)) yearTiny = year - kEpochYear;', expect='silent'),
    dict(id='seconds-of-day-in-signed-arithmetic', file='src/ace_time/LocalDateTime.h', regex=True,
         find=r'acetime_t seconds = \(acetime_t\) \(\(uint32_t\) epochSeconds\n\s+- \(uint32_t\) 86400 \* \(uint32_t\) days\);',
         replace='acetime_t seconds = epochSeconds - 86400 * days;', rule='R8', construct='LocalDateTime::forEpochSeconds'),
    dict(id='remainder-from-truncating-quotient-silent', file='src/ace_time/LocalDateTime.h', regex=True,
         find=r'acetime_t days = \(epochSeconds < 0\)\n[^;]*;\n(.|\n)*?acetime_t seconds = \(acetime_t\) \(\(uint32_t\) epochSeconds\n\s+- \(uint32_t\) 86400 \* \(uint32_t\) days\);',
         replace='acetime_t days = epochSeconds / 86400;\n        acetime_t seconds = epochSeconds - 86400 * days;\n        if (seconds < 0) {\n          seconds += 86400;\n          days--;\n        }',
         expect='silent'),
    dict(id='remainder-with-another-factor', file='src/ace_time/LocalDateTime.h', regex=True,
         find=r'acetime_t days = \(epochSeconds < 0\)\n[^;]*;\n(.|\n)*?acetime_t seconds = \(acetime_t\) \(\(uint32_t\) epochSeconds\n\s+- \(uint32_t\) 86400 \* \(uint32_t\) days\);',
         replace='acetime_t days = epochSeconds / 86400;\n        acetime_t seconds = epochSeconds - 86401 * days;\n        if (seconds < 0) {\n          seconds += 86400;\n          days--;\n        }',
         rule='R8', construct='LocalDateTime'),
    dict(id='remainder-of-a-quotient-taken-before-the-shift', file='src/ace_time/LocalDateTime.h', regex=True,
         find=r'acetime_t days = \(epochSeconds < 0\)\n[^;]*;\n(.|\n)*?acetime_t seconds = \(acetime_t\) \(\(uint32_t\) epochSeconds\n\s+- \(uint32_t\) 86400 \* \(uint32_t\) days\);',
         replace='acetime_t days = epochSeconds / 86400;\n        if (epochSeconds < 0) days--;\n        acetime_t seconds = epochSeconds - 86400 * days;',
         rule='R8', construct='LocalDateTime'),
    dict(id='day-checked-against-month-length-before-the-month', file='src/ace_time/LocalDate.h', find='          || mDay < 1 || mDay > 31\n',
         replace='          || mDay < 1 || mDay > daysInMonth(year(), mMonth)\n', rule='R2-table', construct='LocalDate'),
    dict(id='until-year-given-one-more', file='src/ace_time/ExtendedZoneProcessor.h', find='      if (year < mZoneInfo.startYear() - 1 || mZoneInfo.untilYear() < year) {',
         replace='      if (year < mZoneInfo.startYear() - 1 || mZoneInfo.untilYear() + 1 < year) {', rule='R4-reject', construct='ExtendedZoneProcessor'),
    dict(id='offset-seconds-factor-too-large', file='src/ace_time/TimeOffset.h', find='return (int32_t) 60 * toMinutes();', replace='return (int32_t) 70000 * toMinutes();',
         rule='R8', construct='TimeOffset::toSeconds'),
    dict(id='time-period-seconds-spelling-silent', file='src/ace_time/TimePeriod.h', regex=True,
         find=r'int32_t seconds = \(\(mHour \* \(int16_t\) 60\) \+ mMinute\) \* \(int32_t\) 60\n\s+\+ mSecond;', replace=r'int32_t seconds = (int32_t) mHour * 3600 + (int32_t) mMinute * 60 + mSecond;',
         expect='silent'),
    dict(id='estimator-sees-empty-transitions', file='tools/zonedb/zone_specifier.py',
         find='        for match in matches:\n            transitions_for_match = self._find_transitions_for_match(match)\n            self.transitions.extend(transitions_for_match)\n',
         replace='        transitions: List[Transition] = []\n        for match in matches:\n            transitions.extend(self._find_transitions_for_match(match))\n        self.transitions = transitions\n',
         rule='R5-est'),
    dict(id='estimator-loop-spelling-silent', file='tools/zonedb/zone_specifier.py',
         find='            transitions_for_match = self._find_transitions_for_match(match)\n            self.transitions.extend(transitions_for_match)\n',
         replace='            self.transitions = self.transitions + self._find_transitions_for_match(match)\n', expect='silent'),
    dict(id='basic-range-guard-rejects-jan-1', file='src/ace_time/BasicZoneProcessor.h',
         find='      if (yearTiny + LocalDate::kEpochYear < mZoneInfo.startYear() - 1', replace='      if (yearTiny + LocalDate::kEpochYear < mZoneInfo.startYear()', rule='R4-accept', construct='BasicZoneProcessor'),
    dict(id='extended-range-guard-rejects-last-year', file='src/ace_time/ExtendedZoneProcessor.h',
         find='      if (year < mZoneInfo.startYear() - 1 || mZoneInfo.untilYear() < year) {', replace='      if (year < mZoneInfo.startYear() - 1 || mZoneInfo.untilYear() <= year + 1) {', rule='R4-accept', construct='ExtendedZoneProcessor'),
    dict(id='composite-iserror-date-only', file='src/ace_time/LocalDateTime.h',
         find='      return mLocalDate.isError() || mLocalTime.isError();', replace='      return mLocalDate.isError();', rule='R7', construct='LocalDateTime'),
    dict(id='composite-iserror-conjunction', file='src/ace_time/OffsetDateTime.h',
         find='      return  mTimeOffset.isError() || mLocalDateTime.isError();', replace='      return  mTimeOffset.isError() && mLocalDateTime.isError();', rule='R7', construct='OffsetDateTime'),
    dict(id='composite-iserror-order-silent', file='src/ace_time/OffsetDateTime.h',
         find='      return  mTimeOffset.isError() || mLocalDateTime.isError();', replace='      if (mLocalDateTime.isError()) return true;\n      return mTimeOffset.isError();', expect='silent'),
    dict(id='null-test-dropped-getUtcOffset', file='src/ace_time/ExtendedZoneProcessor.h',
         find='      return (transition)\n          ? TimeOffset::forMinutes(\n              transition->offsetMinutes + transition->deltaMinutes)\n          : TimeOffset::forError();\n    }\n\n    TimeOffset getDeltaOffset',
         replace='      return TimeOffset::forMinutes(\n              transition->offsetMinutes + transition->deltaMinutes);\n    }\n\n    TimeOffset getDeltaOffset', rule='R1', construct='getUtcOffset'),
    dict(id='null-test-dropped-getAbbrev', file='src/ace_time/ExtendedZoneProcessor.h',
         find='return (transition) ? transition->abbrev : "";', replace='return transition->abbrev;', rule='R1', construct='getAbbrev'),
    dict(id='basic-null-test-dropped', file='src/ace_time/BasicZoneProcessor.h',
         find='      return (transition) ? transition->abbrev : "";', replace='      return transition->abbrev;', rule='R1', construct='BasicZoneProcessor::getAbbrev'),
    dict(id='early-return-spelling-silent', file='src/ace_time/ExtendedZoneProcessor.h',
         find='      return (transition) ? transition->abbrev : "";', replace='      if (transition == nullptr) return "";\n      return transition->abbrev;', expect='silent'),
    dict(id='pool-guard-deleted-active', file='src/ace_time/ExtendedZoneProcessor.h',
         find='    void addFreeAgentToActivePool() {\n      if (mIndexFree >= SIZE) return;\n', replace='    void addFreeAgentToActivePool() {\n', rule='R2-inv', construct='addFreeAgentToActivePool'),
    dict(id='pool-guard-deleted-candidate', file='src/ace_time/ExtendedZoneProcessor.h',
         find='    void addFreeAgentToCandidatePool() {\n      if (mIndexFree >= SIZE) return;\n', replace='    void addFreeAgentToCandidatePool() {\n', rule='R2', construct='addFreeAgentToCandidatePool'),
    dict(id='cache-guard-deleted', file='src/ace_time/BasicZoneProcessor.h',
         find='      if (mNumTransitions >= kMaxCacheEntries) return;\n', replace='', rule='R2', construct='addTransition'),
    dict(id='cache-guard-off-by-one', file='src/ace_time/BasicZoneProcessor.h',
         find='      if (mNumTransitions >= kMaxCacheEntries) return;\n', replace='      if (mNumTransitions > kMaxCacheEntries) return;\n', rule='R2', construct='addTransition'),
    dict(id='matches-guard-deleted', file='src/ace_time/ExtendedZoneProcessor.h',
         find='          if (iMatch < maxMatches) {\n            matches[iMatch] = createMatch(prev, era, startYm, untilYm);\n            iMatch++;\n          }',
         replace='          matches[iMatch] = createMatch(prev, era, startYm, untilYm);\n          iMatch++;', rule='R2', construct='findMatches'),
    dict(id='matches-size-argument', file='src/ace_time/ExtendedZoneProcessor.h', find='          kMaxMatches);\n', replace='          kMaxMatches + 1);\n', rule='R2-size'),
    dict(id='interior-years-break-deleted', file='src/ace_time/ExtendedZoneProcessor.h',
         find='          if (i >= maxInteriorYears) break;\n', replace='', rule='R2-index', construct='calcInteriorYears'),
    dict(id='buffer-terminator-past-end', file='src/ace_time/LocalDateTime.h',
         find='buffer[kDateTimeStringLength + 1] = 0;', replace='buffer[kDateTimeStringLength + 2] = 0;', rule='R2-const'),
    dict(id='copy-size-not-decremented', file='src/ace_time/ExtendedZoneProcessor.h',
         find='          *dst++ = *src++;\n          dstSize--;\n', replace='          *dst++ = *src++;\n', rule='R2-copy'),
    dict(id='isError-guard-deleted', file='src/ace_time/LocalDate.h',
         find='    acetime_t toEpochDays() const {\n      if (isError()) return kInvalidEpochDays;\n', replace='    acetime_t toEpochDays() const {\n', rule='R3-to', construct='LocalDate::toEpochDays'),
    dict(id='wrong-sentinel', file='src/ace_time/LocalDateTime.h',
         find='    acetime_t toEpochSeconds() const {\n      if (isError()) return LocalDate::kInvalidEpochSeconds;',
         replace='    acetime_t toEpochSeconds() const {\n      if (isError()) return 0;', rule='R3-to', construct='LocalDateTime::toEpochSeconds'),
    dict(id='factory-sentinel-test-deleted', file='src/ace_time/OffsetDateTime.h',
         find='      if (epochSeconds != LocalDate::kInvalidEpochSeconds) {\n        epochSeconds += timeOffset.toSeconds();\n      }',
         replace='      epochSeconds += timeOffset.toSeconds();', rule='R3-for', construct='OffsetDateTime::forEpochSeconds'),
    dict(id='length-test-deleted', file='src/ace_time/LocalTime.cpp',
         find='  if (strlen(timeString) < kTimeStringLength) {\n    return forError();\n  }\n', replace='', rule='R3-str'),
    dict(id='length-test-through-local-silent', file='src/ace_time/LocalTime.cpp',
         find='  if (strlen(timeString) < kTimeStringLength) {\n    return forError();\n  }\n  return forTimeStringChainable(timeString);',
         replace='  const size_t n = strlen(timeString);\n  return (kTimeStringLength > n) ? forError() : forTimeStringChainable(timeString);', expect='silent'),
    dict(id='length-test-inverted', file='src/ace_time/LocalTime.cpp',
         find='  if (strlen(timeString) < kTimeStringLength) {', replace='  if (strlen(timeString) >= kTimeStringLength) {', rule='R3-str'),
    dict(id='fill-before-range-test', file='src/ace_time/BasicZoneProcessor.h', regex=True,
         find=r'      if \(yearTiny \+ LocalDate::kEpochYear < mZoneInfo.startYear\(\) - 1\n          \|\| mZoneInfo.untilYear\(\) < yearTiny \+ LocalDate::kEpochYear\) \{\n        return false;\n      \}\n\n      basic::ZoneEraBroker priorEra = addTransitionPriorToYear\(yearTiny\);\n',
         replace='      basic::ZoneEraBroker priorEra = addTransitionPriorToYear(yearTiny);\n      if (yearTiny + LocalDate::kEpochYear < mZoneInfo.startYear() - 1\n          || mZoneInfo.untilYear() < yearTiny + LocalDate::kEpochYear) {\n        return false;\n      }\n\n',
         rule='R4', construct='addTransitionPriorToYear'),
    dict(id='failed-init-returns-utc', file='src/ace_time/ExtendedZoneProcessor.h', unique=False, nth=0,
         find='      if (!success) return TimeOffset::forError();', replace='      if (!success) return TimeOffset();', rule='R4-err', construct='getUtcOffset'),
    dict(id='table-buf-size-at-capacity', file='src/ace_time/zonedbx/zone_infos.cpp', regex=True, unique=False, nth=0,
         find=r'2 /\*transitionBufSize\*/', replace='8 /*transitionBufSize*/', rule='R5-buf'),
    dict(id='table-letter-index-out-of-range', file='src/ace_time/zonedbx/zone_policies.cpp', regex=True, unique=False, nth=0,
         find=r"'D' /\*letter\*/", replace='3 /*letter*/', rule='R5-letter'),
    dict(id='table-numRules-too-large', file='src/ace_time/zonedb/zone_policies.cpp', regex=True, unique=False, nth=0,
         find=r'9 /\*numRules\*/', replace='10 /*numRules*/', rule='R5-len'),
    dict(id='renamed-transition-local-silent', file='src/ace_time/BasicZoneProcessor.h', regex=True,
         find=r'const basic::Transition\* transition = getTransition\(epochSeconds\);\n      return \(transition\) \? transition->abbrev : "";',
         replace=r'const basic::Transition* t = getTransition(epochSeconds);\n      if (!t) return "";\n      return t->abbrev;', expect='silent'),
]
