"""C10 - zone lookup is exact and terminates.
R1: index range at every registry access, no wrapping conversion, and a ranking function for every loop
    (difference-bound abstract interpretation of the ZoneRegistrar search functions).
R2: an index is returned only under comparison == 0 with the entry at that index; everything else returns
    the not-found sentinel; the discarded half agrees with the sort direction isSorted() tests.
R3: the zone manager wrappers pass results through unchanged and map null to the error zone."""
from .common import AnalysisError, Report
from . import cxx
from .absint import AbsInt, DBM, Hooks, INF
from .ir import E, walk_expr, walk_stmts, all_exprs, stmt_exprs, show
from .paths import Engine, Rule, path_of

META = {
    'explanation': 'E-ABS (difference-bound matrices, bounded disjunction on loop bodies, loop-head ghost copies) over '
                   'isSorted, linearSearchByName, linearSearchById, binarySearchByName, getZoneInfoFor*, findIndexFor*: '
                   'proves 0 <= i < registrySize at every ZoneRegistryBroker::zoneInfo(i), that no narrowing conversion '
                   'wraps, and exhibits a ranking function for each loop; E-SEQ (typed interpretation through the real bodies of the '
                   'searches, brokers and flash-read macros; only the string comparators are abstracted, to the sign of a rank '
                   'difference) of linear/binary search, isSorted and findIndexFor* on every abstract registry of 0..9 entries '
                   '(thorough: 11) in sorted, reversed, nearly sorted and shuffled order, with every present name, every absent '
                   'name between / before / after the entries, present and absent ids; E-PATH rules for the sorted gate and for the '
                   'ZoneManagerImpl wrappers.',
    'decided': 'every lookup touches only registry entries, performs no wrapping index arithmetic and terminates, for '
               'registries of any size (E-ABS); on the stated registries every search returns the index of the entry that equals '
               'the query, else kInvalidIndex, isSorted() answers true exactly for the non-empty ascending ones, and findIndexFor* '
               'agree with both searches; the binary search is reached only on paths where mIsSorted holds; the manager maps '
               'not-found to the error zone',
    'not_decided': 'a proof of the bisection invariant for registries larger than those interpreted (its control flow depends only on '
                   'comparisons, which is the small-scope argument, not a proof)',
    'assumptions': ['clang 14 parser and template instantiation (both instantiations are analysed)',
                    'strcmp-like comparators return 0 exactly for equal strings',
                    'a registry of registrySize entries is what the constructor was given'],
}

REG = 'ace_time::ZoneRegistrar'
INVALID = 0xffff


class RegHooks(Hooks):
    def __init__(self, R, fn, size_var, summaries, lib):
        self.R, self.fn, self.size, self.summaries, self.lib = R, fn, size_var, summaries, lib
        self.accesses = 0
        self.sentinel = {}     # var -> size var : value is INVALID or < size

    def on_call(self, ai, e, st):
        if e.a[0].endswith('::ZoneRegistryBroker::zoneInfo') and len(e.a[2]) == 1:
            from .absint import Obligation
            c = '%s:zoneInfo(%s)' % (self.fn.name, show(e.a[2][0]))
            v = ai.lin(e.a[2][0], st)
            lo, hi = ai.range_of(v, st)
            ok_lo = lo >= 0
            ok_hi = False
            if v[0] == 'lin' and v[1] is not None:
                ok_hi = st.get(v[1], self.size) + v[2] <= -1
            elif v[0] == 'lin' and v[1] is None:
                ok_hi = st.get('0', self.size) <= -(v[2] + 1)
            elif v[0] == 'mid':
                ok_hi = st.get(v[2], self.size) <= 0 and st.get(v[1], v[2]) <= -1
            ai.obligations.append(Obligation(
                'access', e.loc, c,
                'cannot prove 0 <= %s < %s at this registry access (index in [%s, %s])' % (show(e.a[2][0]), self.size, _b(lo), _b(hi)),
                ok_lo and ok_hi, st.describe()))

    def on_assign(self, ai, x, rhs, st):
        r = rhs
        while r.k == 'cast':
            r = r.a[2]
        if r.k == 'call' and r.a[0] in self.summaries:
            # result is INVALID or < size (size = the argument bound to the callee's size, or this.mRegistrySize)
            sz = self.summaries[r.a[0]](r)
            if sz is not None:
                self.sentinel[x] = sz
        elif x in self.sentinel:
            del self.sentinel[x]


class SentinelAbsInt(AbsInt):
    """AbsInt + disjunctive facts "x == INVALID or x < size" resolved by a guard on x."""

    def guard(self, st, cond, truth):
        AbsInt.guard(self, st, cond, truth)
        c = cond
        while c.k == 'cast':
            c = c.a[2]
        if c.k == 'bin' and c.a[0] in ('==', '!='):
            ne = (c.a[0] == '!=') == truth
            for x, y in ((c.a[1], c.a[2]), (c.a[2], c.a[1])):
                xv = x
                while xv.k == 'cast':
                    xv = xv.a[2]
                p = path_of(xv) if xv.k in ('var', 'field') else None
                if p in self.hooks.sentinel and self.const_of(y) == INVALID and ne:
                    st.add(p, self.hooks.sentinel[p], -1)
        return st


def _uncast(e):
    while e is not None and e.k == 'cast':
        e = e.a[2]
    return e


def _is_cmp_call(e):
    e = _uncast(e)
    return e is not None and e.k == 'call' and e.a[0].split('::')[-1].lower().startswith('strcmp') and len(e.a[2]) == 2


class SortedHooks(RegHooks):
    """isSorted(): ghost variables idx#v (registry index whose name v holds) and start#v (every adjacent pair
    from start#v up to idx#v has been compared in order on this path)."""

    def __init__(self, *a):
        RegHooks.__init__(self, *a)
        self.cmpvar = {}
        self.named = set()
        self.true_returns = []

    def _ghost(self, ai, st, g, v):
        ai.types[g] = (32, True)
        ai.assign(st, g, v)

    def on_object_assign(self, ai, x, rhs, st):
        r = _uncast(rhs)
        names = [c for c in walk_expr(r) if c.k == 'call' and c.a[0].endswith('::name')]
        zi = [c for c in walk_expr(r) if c.k == 'call' and c.a[0].endswith('::ZoneRegistryBroker::zoneInfo') and len(c.a[2]) == 1]
        if names and zi:
            v = ai.lin(zi[0].a[2][0], st)
            self._ghost(ai, st, 'idx#' + x, v)
            self._ghost(ai, st, 'start#' + x, v)
            self.named.add(x)
            return
        y = path_of(r) if r is not None and r.k in ('var', 'field') else None
        if y in self.named:
            self._ghost(ai, st, 'idx#' + x, ('lin', 'idx#' + y, 0))
            self._ghost(ai, st, 'start#' + x, ('lin', 'start#' + y, 0))
            self.named.add(x)
            return
        if x in self.named:
            self.named.discard(x)
            st.forget('idx#' + x)
            st.forget('start#' + x)

    def on_assign(self, ai, x, rhs, st):
        RegHooks.on_assign(self, ai, x, rhs, st)
        if _is_cmp_call(rhs):
            self.cmpvar[x] = _uncast(rhs)
        else:
            self.cmpvar.pop(x, None)

    def on_return(self, ai, s, st):
        v = ai.const_of(s.a[0]) if s.a[0] is not None else None
        if v:
            ok = any(st.get('start#' + x, '0') <= 0 and st.get(self.size, 'idx#' + x) <= 1 for x in self.named)
            self.true_returns.append((s.loc, ok, st.describe()))


class SortedAbsInt(SentinelAbsInt):
    def guard(self, st, cond, truth):
        SentinelAbsInt.guard(self, st, cond, truth)
        c = _uncast(cond)
        if c is not None and c.k == 'bin' and c.a[0] in ('<', '<=', '>', '>=') and self.const_of(c.a[2]) == 0:
            l = _uncast(c.a[1])
            call = l if _is_cmp_call(l) else self.hooks.cmpvar.get(path_of(l)) if l.k in ('var', 'field') else None
            in_order = (c.a[0] in ('<', '<=')) == truth      # the branch on which the pair is not out of order
            if call is not None and in_order:
                p, q = (path_of(_uncast(x)) for x in call.a[2])
                hk = self.hooks
                if p in hk.named and q in hk.named and st.get('idx#' + p, 'idx#' + q) <= -1 and st.get('idx#' + q, 'idx#' + p) <= 1:
                    # q is the successor of p: the verified run of p now extends to q
                    hk._ghost(self, st, 'start#' + q, ('lin', 'start#' + p, 0))
        return st


def sorted_cover(R, lib, fn, size_var):
    """isSorted() may answer true only when every adjacent pair (k-1, k), 1 <= k < registrySize, was compared."""
    hooks = SortedHooks(R, fn, size_var, {}, lib)
    ai = SortedAbsInt(fold_global=lib.global_value, hooks=hooks)
    st = DBM()
    for pn, pt in fn.params:
        ai.declare(st, pn, pt)
    ai.run(fn.body, st)
    c = '%s:return-true' % fn.name
    if not hooks.true_returns:
        raise AnalysisError('%s: isSorted() has no "return true" exit' % fn.loc)
    seen = {}
    for loc, ok, descr in hooks.true_returns:     # the last record per location is the one of the stable iteration
        seen[loc] = (ok, descr)
    for loc, (ok, descr) in seen.items():
        R.instance('R2-cover', c, loc)
        if not ok:
            R.violation('R2-cover', c, loc, 'isSorted() can answer true although not every adjacent pair of entries 0..%s-1 was compared '
                        '(need: a name variable whose verified run starts at index 0 and ends at %s-1); known at this exit: %s' % (size_var, size_var, descr))


def analyse(R, lib, fn, size_var, summaries, entry_facts=None, pending=None):
    viol = (lambda rid, c, loc, msg: pending.append((fn.name, rid, c, loc, msg))) if pending is not None else R.violation
    hooks = RegHooks(R, fn, size_var, summaries, lib)
    ai = SentinelAbsInt(fold_global=lib.global_value, hooks=hooks)
    st = DBM()
    for pn, pt in fn.params:
        ai.declare(st, pn, pt)
    if size_var.startswith('this.'):
        ai.types[size_var] = (16, False)
        ai.clamp_type(st, size_var)
    for (x, y, c) in (entry_facts or []):
        st.add(x, y, c)
    ai.run(fn.body, st)
    # registry accesses and narrowing conversions (obligations of the final, stable iteration only)
    seen = set()
    for ob in ai.obligations:
        if ob.kind == 'access':
            R.instance('R1', ob.construct, ob.loc, 'registry access')
            if not ob.ok and (ob.construct, ob.loc) not in seen:
                viol('R1', ob.construct, ob.loc, ob.msg + '; known: ' + ob.state)
            seen.add((ob.construct, ob.loc))
            continue
        c = '%s:%s' % (fn.name, ob.construct)
        R.instance('R1-conv', c, ob.loc)
        exc = conv_exception(fn, ob)
        if exc:
            R.exception('R1-conv', c, exc)
            continue
        viol('R1-conv', c, ob.loc, ob.msg + '; known: ' + ob.state)
    R.instance('R1-conv', fn.name, fn.loc, 'all narrowing conversions of the function')
    # termination
    for lp in ai.loops:
        c = '%s:loop@%s' % (fn.name, lp['loc'].split(':')[-1])
        cn = '%s:loop' % fn.name
        R.instance('R1-term', cn, lp['loc'])
        msg = ranking(ai, lp)
        if msg:
            viol('R1-term', cn, lp['loc'], msg)
    return ai, hooks


def conv_exception(fn, ob):
    """Explicit exception table for narrowing conversions (rule + construct, with the reason)."""
    if '(i8)strcmp_P(' in ob.construct or '(i8)strcmp_PP(' in ob.construct:
        return ('the comparator result is narrowed to int8_t: a byte difference d with |d| <= 255 stays non-zero after '
                'truncation, so "== 0" still means equal; for ASCII names |d| <= 127 and the sign is preserved; a '
                'flipped sign (non-ASCII query byte) only changes which half is discarded for a name that cannot be present')
    return None


def ranking(ai, lp):
    """None if a ranking function is exhibited, else the reason."""
    cond = lp['cond']
    back = [b for b in lp['back_states'] if not b.bottom]
    g = lp['ghosts']
    if not back:
        return None    # the body never reaches the back edge
    why = None
    if cond is not None:
        # counted loop: i < n (or i != n ...) with i strictly increasing and n not assigned
        c = cond
        while c.k == 'cast':
            c = c.a[2]
        why = 'loop shape not recognised as a counted loop: %s' % show(cond)
        if c.k == 'bin' and c.a[0] in ('<', '<=', '!='):
            l, r = c.a[1], c.a[2]
            while l.k == 'cast':
                l = l.a[2]
            while r.k == 'cast':
                r = r.a[2]
            i, n = path_of(l), path_of(r)
            if i in g and (n is None or n not in g):
                if all(b.get(g[i], i) <= -1 for b in back):
                    return None
                why = 'loop counter %s is not strictly increased on every path back to the loop head' % i
            elif i in g and n in g:
                why = 'loop bound %s is modified inside the loop' % n
    # bracket search: two variables lo, hi with lo <= hi invariant at the head (under the loop condition) and on each
    # back edge either lo advanced and hi did not grow, or hi retreated and lo did not shrink
    vs = [v for v in g if v in ai.types]
    head = lp['head']
    if cond is not None:
        head = ai.guard(head.copy(), cond, True)
    for lo in vs:
        for hi in vs:
            if lo == hi:
                continue
            if head.get(lo, hi) > 0:
                continue
            ok = True
            for b in back:
                adv = b.get(g[lo], lo) <= -1 and b.get(hi, g[hi]) <= 0
                ret = b.get(hi, g[hi]) <= -1 and b.get(g[lo], lo) <= 0
                if not (adv or ret):
                    ok = False
                    break
            if ok:
                return None
    if why:
        return why
    descr = '; '.join(b.describe() for b in back[:2])
    return ('no ranking function: no pair (lo, hi) of loop variables with lo <= hi invariant at the loop head such that every '
            'path back to the head advances lo or retreats hi; head invariant: %s; back edges: %s' % (head.describe(), descr))


def _b(x):
    return '-inf' if x == -INF else '+inf' if x == INF else str(int(x))


def caller_facts(R, lib, inst):
    """Lower bounds on the registrySize argument of binarySearchByName established by its only caller."""
    facts = {}
    callers = []
    for q, fs in lib.funcs.items():
        if not q.startswith(REG + '::'):
            continue
        for f in fs:
            if f.inst != inst:
                continue
            for e in all_exprs(f.body):
                if e.k == 'call' and e.a[0] == REG + '::binarySearchByName':
                    callers.append((f, e))
    if not callers:
        return 0        # reached through a function pointer or a dispatcher: no fact about the size is assumed
    lows = []

    class H(Hooks):
        def on_call(self_, ai, e, st):
            if e.k == 'call' and e.a[0] == REG + '::binarySearchByName':
                v = ai.lin(e.a[2][1], st)
                lo, hi = ai.range_of(v, st)
                lows.append(lo)
    for f, _e in callers:
        ai = AbsInt(fold_global=lib.global_value, hooks=H())
        st = DBM()
        for pn, pt in f.params:
            ai.declare(st, pn, pt)
        ai.types['this.mRegistrySize'] = (16, False)
        ai.clamp_type(st, 'this.mRegistrySize')
        ai.run(f.body, st)
    return min(lows) if lows else 0


def run(cfg):
    R = Report('C10', cfg)
    lib = cxx.load_lib(cfg)
    R.analysed['translation_units'] = ['tu/lib.cpp']
    R.rule('R1', '0 <= i < registrySize at every ZoneRegistryBroker::zoneInfo(i)', floor=14)
    R.rule('R1-conv', 'no narrowing integral conversion in the search functions can wrap', floor=14)
    R.rule('R1-term', 'every loop of the search functions has a ranking function', floor=8)
    R.rule('R2', 'every look-up returns the index of the entry that equals the query, else kInvalidIndex (interpreted on abstract registries of 0..9 entries in several orders)', floor=6)
    R.rule('R2-dir', 'the binary search finds every present name and no absent one on every sorted abstract registry', floor=2)
    R.rule('R2-sorted', 'findIndexForName answers correctly on every unsorted abstract registry, also above the size at which it starts to bisect (interpreted)', floor=2)
    R.rule('R2-cover', 'isSorted() answers true exactly for the non-empty ascending abstract registries', floor=2)
    R.rule('R3', 'ZoneManagerImpl: a found entry becomes a TimeZone holding that entry and this manager\'s cache, not found becomes the error zone; index and size queries pass the registrar\'s answers on (interpreted)', floor=8)
    insts = sorted({f.inst for f in lib.funcs.get(REG + '::binarySearchByName', []) if f.inst != 'primary'})
    if len(insts) < 2:
        raise AnalysisError('anchor moved: expected Basic and Extended instantiations of ZoneRegistrar, got %r' % insts)
    inv = lib.const(REG + '::kInvalidIndex') if lib.global_value(REG + '::kInvalidIndex') is not None else INVALID
    R.analysed['instantiations'] = insts
    R.analysed['functions'] = []
    pending = []
    for inst in insts:
        tag = 'basic' if 'basic' in inst else 'extended'
        lowb = caller_facts(R, lib, inst)
        R.note('%s: binarySearchByName is reached with registrySize >= %s' % (tag, lowb))
        # static searches: size is the parameter
        def static_summary(call):
            a = call.a[2][1]
            while a.k == 'cast':
                a = a.a[2]
            return path_of(a)
        summ = {REG + '::' + n: static_summary for n in ('linearSearchByName', 'binarySearchByName', 'linearSearchById')}
        member_summary = {REG + '::findIndexForName': (lambda call: 'this.mRegistrySize'),
                          REG + '::findIndexForId': (lambda call: 'this.mRegistrySize')}
        for name in ('isSorted', 'linearSearchByName', 'linearSearchById', 'binarySearchByName'):
            fs = [f for f in lib.fns(REG + '::' + name, inst) if len(f.params) >= 2]
            if not fs:
                raise AnalysisError('anchor vanished: %s::%s [%s]' % (REG, name, tag))
            f = fs[0]
            facts = []
            if name == 'binarySearchByName' and lowb > 0:
                facts.append(('0', f.params[1][0], -lowb))
            ai, hk = analyse(R, lib, f, f.params[1][0], {}, facts, pending=pending)
            R.analysed['functions'].append('%s [%s]' % (f.name, tag))
        for name in ('getZoneInfoForIndex', 'getZoneInfoForName', 'getZoneInfoForId', 'findIndexForName', 'findIndexForId'):
            f = lib.fn(REG + '::' + name, inst)
            s = dict(summ)
            s.update(member_summary)
            ai, hk = analyse(R, lib, f, 'this.mRegistrySize', s, pending=pending)
            R.analysed['functions'].append('%s [%s]' % (f.name, tag))
            if name.startswith('findIndex'):
                delegate_rule(R, lib, f)
        clean, maxn = search_eval(R, lib, inst, tag, inv)
        for fname, rid, c, loc, msg in pending:
            if fname in clean:
                # E-ABS could not prove it for registries of every size, and E-SEQ found nothing on the small ones: said, not alarmed
                R.undecided_obligation(rid, c, loc, msg + ' - NOT PROVED for registries of every size; on every abstract registry of 0..%d entries the '
                                       'interpreted look-up stays inside the registry, terminates and returns the right index' % maxn)
            else:
                R.violation(rid, c, loc, msg)
        del pending[:]
    manager_rules(R, lib)
    return R


def search_eval(R, lib, inst, tag, inv):
    """The look-ups are interpreted (E-SEQ, typed) on abstract registries: entries are records with a name and an id, names
    are ranks (so that the string comparators are the sign of a difference - their only abstraction; the brokers and the
    flash-read macros are interpreted through their bodies), sizes 0..9, in sorted order and in several other orders, and
    every present name, every absent name between / before / after the entries, present and absent ids.  Decided: each
    search returns the index of the entry that equals the query, else kInvalidIndex; never reads outside the registry (a
    subscript outside the abstract array ends the interpretation) and always terminates (step budget); isSorted() answers
    true exactly for the non-empty ascending registries; findIndexForName() agrees with both on every registry."""
    import itertools
    import random
    from .aeval import AEval, AObj, CxxModule, Raised
    mod = CxxModule(lib, ['ace_time::'])

    def sgn(ev, recv, args):
        a, b = args
        return (a > b) - (a < b)
    intr = {'strcmp_P': sgn, 'ace_common::strcmp_PP': sgn, 'strcmp': sgn}

    def fn(name, nparams=None):
        fs = [f for f in lib.fns(REG + '::' + name, inst) if (nparams is None or len(f.params) == nparams)]
        if not fs:
            raise AnalysisError('anchor vanished: %s::%s [%s]' % (REG, name, tag))
        return fs[0]

    def call(f, args, recv=None, budget=20000):
        """-> value, or ('fault', text)"""
        if f.name in dead:          # one look-up that never ends is enough: the rest of its calls are not interpreted
            return ('fault', 'does not terminate')
        try:
            ev = AEval(module=mod, intrinsics=intr, typed=True, max_steps=budget)
            ns = CxxModule._Fn(f)
            return ev.call_function(f.name, list(args), recv=recv, chosen=ns)
        except IndexError:
            return ('fault', 'reads outside the registry')
        except AnalysisError as ex:
            if 'step budget' in str(ex) or 'does not terminate' in str(ex):
                dead.add(f.name)
                return ('fault', 'does not terminate')
            raise
    dead = set()
    ctor_f = [f for f in lib.fns(REG + '::ZoneRegistrar', inst) if len(f.params) == 2]
    if not ctor_f:
        raise AnalysisError('anchor vanished: %s(registrySize, zoneRegistry) [%s]' % (REG, tag))
    from .cxx import int_type as _it
    reg_ftypes = {n_: _it(t_) for n_, t_, _x in lib.fields(REG) if _it(t_)}

    def make_registrar(reg, n, assume_sorted=False):
        """a registrar as its own constructor leaves it (whatever members it keeps); for the large virtual registries the scan
        of isSorted() over every entry is replaced by its answer"""
        o = AObj({}, oid='registrar', cls=REG, ftypes=reg_ftypes)
        f_ = ctor_f[0]
        args = [n if _it(pt_) else reg for (_pn, pt_) in f_.params]
        xi = dict(intr)
        if assume_sorted:
            xi[REG + '::isSorted'] = lambda ev, recv, a_: 1
        try:
            AEval(module=mod, intrinsics=xi, typed=True, max_steps=200000).call_function(f_.name, args, recv=o, chosen=CxxModule._Fn(f_))
        except IndexError:
            note('R2-cover', '%s:return-true' % srt.name, f_.loc, 'the constructor reads outside a registry of %d entries' % n)
            return AObj({'mRegistrySize': n, 'mZoneRegistry': reg, 'mIsSorted': 0}, oid='registrar', cls=REG, ftypes=reg_ftypes)
        return o
    lin, bsr, lid, srt = fn('linearSearchByName'), fn('binarySearchByName'), fn('linearSearchById'), fn('isSorted', 2)
    fin, fid = fn('findIndexForName'), fn('findIndexForId')
    thorough = R.cfg.tier == 'thorough'
    rng = random.Random(R.cfg.seed or 0)
    maxn = 11 if thorough else 9
    thr = lib.global_value(REG + '::kBinarySearchThreshold')
    if isinstance(thr, int) and thr + 1 > maxn:
        maxn = min(thr + 2, 16)          # the registries must reach beyond the size at which the dispatcher starts to bisect
    counts = {'R2': 0, 'R2-dir': 0, 'R2-cover': 0, 'R2-sorted': 0}
    first = {}

    def note(rule, construct, loc, text):
        first.setdefault((rule, construct), (loc, text))
    for n in range(0, maxn + 1):
        ranks = [2 * i for i in range(n)]
        orders = [list(ranks)]
        if n >= 2:
            orders.append(list(reversed(ranks)))
            for _ in range(4 if thorough else 2):
                p = list(ranks)
                rng.shuffle(p)
                orders.append(p)
            sw = list(ranks)
            sw[-1], sw[-2] = sw[-2], sw[-1]
            orders.append(sw)               # sorted except for the last pair
        for order in orders:
            reg = [AObj({'name': r, 'zoneId': 1000 + r}, oid='z%d' % r) for r in order]
            is_sorted = n >= 1 and all(order[i] <= order[i + 1] for i in range(n - 1))
            counts['R2-cover'] += 1
            got = call(srt, [reg, n])
            if (got if isinstance(got, tuple) else bool(got)) != is_sorted:
                note('R2-cover', '%s:return-true' % srt.name, srt.loc, 'isSorted() answers %s for a registry of %d entries whose names are in the order %s'
                     % (got[1] if isinstance(got, tuple) else bool(got), n, order))
            registrar = make_registrar(reg, n)
            for q in [-1] + [r + d for r in ranks for d in (0, 1)]:
                want = order.index(q) if q in order else inv
                searches = [(lin, 'R2', '%s:found' % lin.name, [reg, n, q], None), (fin, 'R2', '%s:return' % fin.name, [q], registrar)]
                if is_sorted:
                    searches.append((bsr, 'R2-dir', '%s:direction' % bsr.name, [reg, n, q], None))
                for f_, rule, c, args, recv in searches:
                    counts[rule] += 1
                    got = call(f_, args, recv)
                    if f_ is fin and not is_sorted and n >= 2:
                        # on an unsorted registry the dispatcher must not end up in the bisection (it would miss present names)
                        counts['R2-sorted'] += 1
                        if got != want:
                            note('R2-sorted', '%s:binary-search-gate' % fin.name, fin.loc, 'registry of %d entries with names in the order %s (mIsSorted is false), query rank %d: '
                                 'findIndexForName gives %s, expected %s: an unsorted registry is searched as if it were sorted'
                                 % (n, order, q, got[1] if isinstance(got, tuple) else ('index %d' % got if got != inv else 'not found'), ('index %d' % want) if want != inv else 'not found'))
                    if got != want:
                        note(rule, c, f_.loc, '%s on a registry of %d entries with names in the order %s, query %s: %s, expected %s'
                             % (f_.name.split('::')[-1], n, order, 'rank %d' % q, got[1] if isinstance(got, tuple) else ('index %d' % got if got != inv else 'not found'),
                                ('index %d' % want) if want != inv else 'not found'))
            for zid in [0, 0xFFFFFFFF] + [1000 + r for r in ranks] + [1001 + r for r in ranks[:2]]:
                want = order.index(zid - 1000) if (zid - 1000) in order else inv
                for f_, c, args, recv in ((lid, '%s:found' % lid.name, [reg, n, zid], None), (fid, '%s:return' % fid.name, [zid], registrar)):
                    counts['R2'] += 1
                    got = call(f_, args, recv)
                    if got != want:
                        note('R2', c, f_.loc, '%s on a registry of %d entries, id %d: %s, expected %s'
                             % (f_.name.split('::')[-1], n, zid, got[1] if isinstance(got, tuple) else ('index %d' % got if got != inv else 'not found'),
                                ('index %d' % want) if want != inv else 'not found'))
    # the bisection on sorted registries whose sizes sit at the edges of the index types (entries made when they are read):
    # a midpoint or a bound that wraps in 8 or 16 bits shows here, which the small registries above cannot show
    class Virtual(list):
        def __init__(self, n):
            super().__init__()
            self.n, self.made = n, {}

        def __len__(self):
            return self.n

        def __bool__(self):
            return self.n > 0

        def __getitem__(self, i):
            if not isinstance(i, int) or i < 0 or i >= self.n:
                raise IndexError(i)
            if i not in self.made:
                self.made[i] = AObj({'name': 2 * i, 'zoneId': 1000 + 2 * i}, oid='z%d' % (2 * i))
            return self.made[i]
    top = inv - 1 if inv > 0 else 0xFFFE
    for n in sorted({255, 256, 257, 32767, 32768, 32769, top - 1, top} if thorough else {255, 256, 257, 32768, top}):
        if n <= maxn or n >= inv:
            continue
        reg = Virtual(n)
        registrar = make_registrar(reg, n, assume_sorted=True)
        for i in sorted({0, 1, n // 2 - 1, n // 2, n // 2 + 1, n - 2, n - 1}):
            for q, want in ((2 * i, i), (2 * i + 1, inv), (2 * i - 1, inv)):
                for f_, c, args, recv in ((bsr, '%s:direction' % bsr.name, [reg, n, q], None), (fin, '%s:return' % fin.name, [q], registrar)):
                    counts['R2-dir' if f_ is bsr else 'R2'] += 1
                    got = call(f_, args, recv, budget=20000 if f_ is bsr else 20000 + 40 * n)    # the dispatcher may legitimately walk the registry
                    if got != want:
                        note('R2-dir' if f_ is bsr else 'R2', c, f_.loc, '%s on a sorted registry of %d entries, query rank %d: %s, expected %s'
                             % (f_.name.split('::')[-1], n, q, got[1] if isinstance(got, tuple) else ('index %d' % got if got != inv else 'not found'),
                                ('index %d' % want) if want != inv else 'not found'))
    faulty = set()
    for (rule_, c_), _v in first.items():
        faulty.add(c_.rsplit(':', 1)[0])
    for rule, c, loc in (('R2', '%s:found' % lin.name, lin.loc), ('R2', '%s:found' % lid.name, lid.loc), ('R2', '%s:return' % fin.name, fin.loc),
                         ('R2', '%s:return' % fid.name, fid.loc), ('R2-dir', '%s:direction' % bsr.name, bsr.loc), ('R2-cover', '%s:return-true' % srt.name, srt.loc),
                         ('R2-sorted', '%s:binary-search-gate' % fin.name, fin.loc)):
        R.instance(rule, c, loc, '[%s] %d interpreted look-ups' % (tag, counts[rule]), n=max(1, counts[rule] // 4))
        if (rule, c) in first:
            R.violation(rule, c, first[(rule, c)][0], '[%s] %s' % (tag, first[(rule, c)][1]))
    covered = {lin.name, bsr.name, lid.name, srt.name, fin.name, fid.name}
    return (covered - faulty) if not faulty else set(), maxn


def returns_rule(R, lib, f, ai, size_var, inv):
    """every return of a search function is kInvalidIndex or a value proved < registrySize."""
    for s, st in ai.ret_states:
        e = s.a[0]
        c = '%s:return' % f.name
        R.instance('R2', c, s.loc, show(e))
        v = e
        while v.k == 'cast':
            v = v.a[2]
        cv = ai.const_of(v)
        if cv is not None:
            if cv != inv:
                R.violation('R2', c, s.loc, 'returns the constant %d, which is neither an index under test nor kInvalidIndex' % cv)
            continue
        p = path_of(v)
        if p is None or st.get(p, size_var) > -1 or st.bounds(p)[0] < 0:
            R.violation('R2', c, s.loc, 'returned value %s is not proved to be an index below %s' % (show(e), size_var))


def delegate_rule(R, lib, f):
    """that findIndexFor* answer like the searches over (mZoneRegistry, mRegistrySize, query), and that an unsorted registry is
    never bisected, is decided by search_eval on every abstract registry (the unsorted ones of 6..9 entries lie above the
    threshold at which the dispatcher turns to the bisection); how the dispatcher spells its gate - a test of mIsSorted, of
    isSorted(), of a flag computed once in the constructor - is its own business"""
    return


class FoundRule(Rule):
    """state: frozenset of facts ('eq', idx) established by `cmp == 0` where cmp compares the query with entry idx."""

    def __init__(self, R, f, query, kind):
        self.R, self.f, self.query, self.kind = R, f, query, kind
        self.defs = {}

    def initial(self):
        return [frozenset()]

    def assign(self, s, st, tr):
        if s.k == 'decl' and s.a[2] is not None:
            self.defs[s.a[0]] = s.a[2]
            return frozenset(x for x in st if x[1] != s.a[0])
        if s.k == 'assign' and s.a[0].k == 'var':
            self.defs.pop(s.a[0].a[0], None)
            return frozenset(x for x in st if x[1] != s.a[0].a[0])
        return st

    def _resolve(self, e, depth=0):
        while e.k in ('cast', 'ptrcast'):
            e = e.a[-1]
        if e.k == 'var' and e.a[0] in self.defs and depth < 4:
            return self._resolve(self.defs[e.a[0]], depth + 1)
        return e

    def _entry_index(self, e):
        """index i if e is <name|zoneId of> Broker(zoneRegistry.zoneInfo(i))"""
        e = self._resolve(e)
        if e.k == 'call' and e.a[0].split('::')[-1] in ('name', 'zoneId') and e.a[1] is not None:
            b = self._resolve(e.a[1])
            if b.k == 'init' and b.a[1]:
                z = self._resolve(b.a[1][0])
                if z.k == 'call' and z.a[0].endswith('ZoneRegistryBroker::zoneInfo'):
                    i = z.a[2][0]
                    while i.k == 'cast':
                        i = i.a[2]
                    return path_of(i)
        return None

    def _cmp_index(self, x):
        """index i if x is comparator(query, name(i)) in either argument order."""
        if x.k == 'call' and len(x.a[2]) == 2:
            args = x.a[2]
            for q, n in ((args[0], args[1]), (args[1], args[0])):
                if path_of(self._resolve(q)) == self.query:
                    i = self._entry_index(n)
                    if i is not None:
                        return i
        return None

    def refine(self, cond, st, truth):
        c = cond
        while c.k == 'cast':
            c = c.a[2]
        if c.k != 'bin' or c.a[0] not in ('==', '!=', '<', '>', '<=', '>='):
            return st
        op = c.a[0]
        if not truth:
            op = {'==': '!=', '!=': '==', '<': '>=', '>': '<=', '<=': '>', '>=': '<'}[op]
        l, r = self._resolve(c.a[1]), self._resolve(c.a[2])
        for x, y, flip in ((l, r, False), (r, l, True)):
            if y.k == 'const' and y.a[0] == 0:
                i = self._cmp_index(x)
                if i is None:
                    continue
                o = op
                if flip:
                    o = {'<': '>', '>': '<', '<=': '>=', '>=': '<='}.get(o, o)
                if o == '==':
                    return st | {('eq', i)}
                if o in ('<=', '>='):
                    other = ('ge' if o == '<=' else 'le', i)
                    me = ('le' if o == '<=' else 'ge', i)
                    if other in st:
                        return st | {me, ('eq', i)}
                    return st | {me}
                return st
            # zoneId == zoneId(i)
            if op == '==' and path_of(x) == self.query:
                i = self._entry_index(y)
                if i is not None:
                    return st | {('eq', i)}
        return st

    def at_exit(self, kind, stmt, st, tr):
        if kind != 'return' or stmt.a[0] is None:
            return
        e = stmt.a[0]
        while e.k == 'cast':
            e = e.a[2]
        if e.k == 'const' or (e.k == 'var' and '::' in e.a[0]):
            return
        p = path_of(e)
        c = '%s:found' % self.f.name
        self.R.instance('R2', c, stmt.loc, 'returns %s' % show(e))
        if ('eq', p) not in st:
            self.R.violation('R2', c, stmt.loc, 'index %s is returned on a path where the %s at that index was not compared equal to the query' % (show(e), self.kind), detail=list(tr))


def found_rule(R, lib, inst, tag):
    for name, kind in (('linearSearchByName', 'name'), ('binarySearchByName', 'name'), ('linearSearchById', 'id')):
        f = [x for x in lib.fns(REG + '::' + name, inst)][0]
        Engine(FoundRule(R, f, f.params[2][0], kind)).run(f.body)
    # direction: in isSorted `cmp(prev, curr) > 0 => unsorted` i.e. ascending; in the binary search,
    # `cmp(query, entry) < 0` must discard the upper half (assign the upper bound) and `> 0` the lower half
    f = lib.fns(REG + '::binarySearchByName', inst)[0]
    srt = [x for x in lib.fns(REG + '::isSorted', inst) if len(x.params) >= 2][0]
    c = '%s:direction' % f.name
    R.instance('R2-dir', c, f.loc)
    asc = None
    cmpdefs = {}
    for s in walk_stmts(srt.body):
        if s.k == 'decl' and s.a[2] is not None and _is_cmp_call(s.a[2]):
            cmpdefs[s.a[0]] = _uncast(s.a[2])
        if s.k == 'if' and any(x.k == 'return' for x in s.a[1]):
            for cnd in walk_expr(s.a[0]):
                if not (cnd.k == 'bin' and cnd.a[0] in ('>', '<', '>=', '<=')):
                    continue
                l = _uncast(cnd.a[1])
                call = l if _is_cmp_call(l) else cmpdefs.get(path_of(l)) if l.k == 'var' else None
                if call is None:
                    continue
                first, second = (path_of(_uncast(x)) for x in call.a[2])
                # the "previous" operand is the one the loop refreshes from the other one (prev = curr)
                copies = {path_of(t.a[0]): path_of(_uncast(t.a[1])) for t in walk_stmts(srt.body)
                          if t.k == 'assign' and t.a[0].k == 'var' and _uncast(t.a[1]).k == 'var'}
                if copies.get(first) == second:
                    first_is_prev = True
                elif copies.get(second) == first:
                    first_is_prev = False
                else:       # no refresh in the loop (R2-cover reports that); fall back to the operand order
                    first_is_prev = True
                asc = (cnd.a[0] in ('>', '>=')) == first_is_prev
    if asc is None:
        raise AnalysisError('%s: isSorted() comparison shape not recognised' % srt.loc)
    # find assignments to the bracket variables guarded by the sign of the comparison
    defs = {}
    upper_on_less = None
    info = []

    def scan(block, sign):
        for s in block:
            if s.k == 'decl' and s.a[2] is not None:
                defs[s.a[0]] = s.a[2]
            if s.k == 'if':
                cnd = s.a[0]
                while cnd.k == 'cast':
                    cnd = cnd.a[2]
                sg = None
                if cnd.k == 'bin' and cnd.a[0] in ('<', '>') and (cnd.a[2].k == 'const' and cnd.a[2].a[0] == 0):
                    sg = cnd.a[0]
                scan(s.a[1], sg if sg else sign)
                inv = {'<': '>=', '>': '<='}.get(sg)
                scan(s.a[2], inv if inv else sign)
            elif s.k == 'loop':
                scan(s.a[4], sign)
            elif s.k == 'assign' and s.a[0].k == 'var' and sign in ('<', '>', '>=', '<='):
                rhs = s.a[1]
                while rhs.k == 'cast':
                    rhs = rhs.a[2]
                plus = rhs.k == 'bin' and rhs.a[0] == '+'
                minus = rhs.k == 'bin' and rhs.a[0] == '-'
                info.append((sign, s.a[0].a[0], 'mid+1' if plus else 'mid-1' if minus else 'mid', s.loc))
    scan(f.body, None)
    if not info:
        raise AnalysisError('%s: no bracket update found in binarySearchByName' % f.loc)
    for sign, var, how, loc in info:
        # query < entry  => the answer is below: the upper bound must move (assigned mid or mid-1)
        # query > entry  => the lower bound must move (assigned mid+1)
        lower_moves = how == 'mid+1'
        want_lower = sign in ('>', '>=') if asc else sign in ('<', '<=')
        if lower_moves != want_lower:
            R.violation('R2-dir', c, loc, 'when the query compares %s the entry the search assigns %s := %s, which keeps the wrong half of '
                        'a registry sorted %s' % ('above' if sign in ('>', '>=') else 'below', var, how, 'ascending' if asc else 'descending'))


def manager_rules(R, lib):
    """ZoneManagerImpl is interpreted (E-SEQ, typed; registrar, brokers and the TimeZone constructors through their real bodies,
    string comparators abstracted to the sign of a rank difference, the cache to an object that answers getType()) on
    registries of 0, 1, 3 and 7 entries: createForZoneName / Id / Index give a TimeZone that holds exactly the registry entry
    found and this manager's cache, of the cache's type - or the error zone when nothing is found; indexForZoneName / Id and
    registrySize pass the registrar's answers on."""
    from .aeval import AEval, AObj, CxxModule, Raised, Ref
    q = 'ace_time::ZoneManagerImpl'
    insts = sorted({f.inst for f in lib.funcs.get(q + '::createForZoneInfo', []) if f.inst != 'primary'})
    if len(insts) < 2:
        raise AnalysisError('anchor moved: ZoneManagerImpl instantiations: %r' % insts)
    mod = CxxModule(lib, ['ace_time::'])
    inv = lib.const(REG + '::kInvalidIndex') if lib.global_value(REG + '::kInvalidIndex') is not None else INVALID
    kerr = lib.const('ace_time::TimeZone::kTypeError')
    MARK = 77

    def sgn(ev, recv, args):
        # a name is its rank; a caller's buffer (an object whose content can change between calls) is compared by what it holds now
        a, b = (x.attrs['rank'] if isinstance(x, AObj) and 'rank' in x.attrs else x for x in args)
        return (a > b) - (a < b)
    intr = {'strcmp_P': sgn, 'ace_common::strcmp_PP': sgn, 'strcmp': sgn, 'ace_time::ZoneProcessorCache::getType': lambda ev, recv, args: MARK}
    for inst in insts:
        tag = 'basic' if 'asic' in inst else 'extended'
        flds = {}
        cls = [c for c in lib.classes.get(q, []) if c.get('_inst') == inst]
        from .cxx import nty
        for c_ in cls[:1]:
            for x in c_.get('inner', []):
                if x.get('kind') == 'FieldDecl':
                    flds[x['name']] = nty(x) or ''
        reg_f = [n for n, ty in flds.items() if 'Registrar' in ty]
        cache_f = [n for n, ty in flds.items() if 'Cache' in ty]
        if len(reg_f) != 1 or len(cache_f) != 1:
            raise AnalysisError('%s [%s]: expected one registrar and one cache member, found %r' % (q, tag, flds))
        first = {}
        counts = {}

        def note(c, loc, text):
            first.setdefault(c, (loc, text))
        for n in (0, 1, 3, 7):
            order = [2 * i for i in range(n)]
            reg = [AObj({'name': r, 'zoneId': 1000 + r}, oid='z%d' % r) for r in order]
            rc = [f_ for f_ in lib.fns(REG + '::ZoneRegistrar') if len(f_.params) == 2 and f_.inst != 'primary' and (('asic' in f_.inst) == (tag == 'basic'))]
            if not rc:
                raise AnalysisError('anchor vanished: %s(registrySize, zoneRegistry) [%s]' % (REG, tag))
            from .cxx import int_type as _it
            registrar = AObj({}, oid='registrar', cls=REG, ftypes={n_: _it(t_) for n_, t_, _x in lib.fields(REG) if _it(t_)})
            AEval(module=mod, intrinsics=intr, typed=True, max_steps=200000).call_function(
                rc[0].name, [n if _it(pt_) else reg for (_pn, pt_) in rc[0].params], recv=registrar, chosen=CxxModule._Fn(rc[0]))
            cache = AObj({}, oid='cache', cls='ace_time::ZoneProcessorCache')
            # every other member starts as its in-class initialiser says (null for pointers, zero for numbers)
            others = {}
            for c_ in cls[:1]:
                for x in c_.get('inner', []):
                    if x.get('kind') == 'FieldDecl' and x['name'] not in (reg_f[0], cache_f[0]):
                        ini = [y for y in x.get('inner', []) if y.get('kind') not in ('FullComment',) and 'Attr' not in y.get('kind', '')]
                        v_ = lib.fold_node(ini[0]) if ini else None
                        others[x['name']] = None if '*' in (nty(x) or '') else (v_ if v_ is not None else 0)
            mgr = AObj(dict(others, **{reg_f[0]: registrar, cache_f[0]: cache}), oid='manager', cls=q)

            def call(m, args):
                f = lib.fn(q + '::' + m, inst)
                counts[f.name] = counts.get(f.name, 0) + 1
                try:
                    return f, AEval(module=mod, intrinsics=intr, typed=True, max_steps=20000).call_function(f.name, list(args), recv=mgr, chosen=CxxModule._Fn(f))
                except IndexError:
                    return f, ('fault', 'reads outside the registry')
                except Raised as x_:
                    return f, ('fault', 'raises %s' % x_.what)
                except AnalysisError as ex:
                    if 'step budget' in str(ex):
                        return f, ('fault', 'a call that does not terminate')
                    raise

            def describe(tz):
                if isinstance(tz, tuple):
                    return tz[1]
                if not isinstance(tz, AObj) or 'mType' not in tz.attrs:
                    return 'not a TimeZone (%r)' % (tz,)
                if tz.attrs['mType'] == kerr:
                    return 'the error zone'
                zi = tz.attrs.get('mZoneInfo')
                zi = zi.get() if isinstance(zi, Ref) else zi
                ch = tz.attrs.get('mZoneProcessorCache')
                ch = ch.get() if isinstance(ch, Ref) else ch
                who = next((e.oid for e in reg if e is zi), 'no registry entry')
                return 'a zone of type %s for %s with %s' % ('<cache type>' if tz.attrs['mType'] == MARK else tz.attrs['mType'], who, 'this cache' if ch is cache else 'another cache')
            queries = [('createForZoneName', 'indexForZoneName', r, (order.index(r) if r in order else None)) for r in [-1] + [x + d for x in order for d in (0, 1)]]
            queries += [('createForZoneId', 'indexForZoneId', zid, (order.index(zid - 1000) if (zid - 1000) in order else None)) for zid in [0, 999] + [1000 + x for x in order] + [1001]]
            queries += [('createForZoneIndex', None, k, (k if k < n else None)) for k in range(0, n + 2)]
            for m, im, arg, want in queries:
                f, tz = call(m, [arg])
                exp = 'the error zone' if want is None else 'a zone of type <cache type> for z%d with this cache' % order[want]
                got = describe(tz)
                if got != exp:
                    note(f.name, f.loc, '[%s] registry of %d entries, %s(%s): the result is %s, expected %s' % (tag, n, m, arg, got, exp))
                if im:
                    f2, ix = call(im, [arg])
                    wi = inv if want is None else want
                    if ix != wi:
                        note(f2.name, f2.loc, '[%s] registry of %d entries, %s(%s) gives %s, the registrar says %s' % (tag, n, im, arg, ix[1] if isinstance(ix, tuple) else ix, wi))
            # the same buffer handed in twice with different text (a line buffer read from a serial port): the second answer is about
            # the second text
            if n >= 3:
                for a_, b_ in ((order[0], order[1]), (order[1], order[1] + 1), (order[0] + 1, order[2]), (order[2], order[2])):
                    buf = AObj({'rank': a_}, oid='name-buffer', cls='char[]')
                    call('createForZoneName', [buf])
                    buf.attrs['rank'] = b_
                    f, tz = call('createForZoneName', [buf])
                    want = order.index(b_) if b_ in order else None
                    exp = 'the error zone' if want is None else 'a zone of type <cache type> for z%d with this cache' % order[want]
                    if describe(tz) != exp:
                        note(f.name, f.loc, '[%s] registry of %d entries, createForZoneName() called twice with one buffer that first holds the name of rank %d, then of rank %d: '
                             'the second result is %s, expected %s' % (tag, n, a_, b_, describe(tz), exp))
            f3, sz = call('registrySize', [])
            if sz != n:
                note(f3.name, f3.loc, '[%s] registrySize() gives %s for a registry of %d entries' % (tag, sz, n))
            f4, tz = call('createForZoneInfo', [None])
            if describe(tz) != 'the error zone':
                note(f4.name + ':null', f4.loc, '[%s] a null zone info does not map to TimeZone::forError() but to %s' % (tag, describe(tz)))
            counts[f4.name + ':null'] = counts.get(f4.name + ':null', 0) + 1
        for c in sorted(counts):
            loc = lib.fn(c.split(':null')[0], inst).loc
            R.instance('R3', c, loc, '[%s] %d interpreted calls' % (tag, counts[c]))
            if c in first:
                R.violation('R3', c, first[c][0], first[c][1])


SELFTEST = [
    dict(id='closed-interval-search', file='src/ace_time/ZoneRegistrar.h', regex=True,
         find=r'uint16_t b = registrySize;\n(.*?)uint16_t diff = b - a;\n        if \(diff == 0\) break;\n\n        uint16_t c = a \+ diff / 2;(.*?)b = c;(.*?)\} else \{\n          return c;\n        \}',
         replace=r'uint16_t b = registrySize - 1;\n\1uint16_t c = (a + b) / 2;\2b = c - 1;\3} else {\n          return c;\n        }\n        if (a == b) break;',
         rule='R1', construct='binarySearchByName'),
    dict(id='linear-search-off-by-one', file='src/ace_time/ZoneRegistrar.h', unique=False, nth=0,
         find='for (uint16_t i = 0; i < registrySize; ++i) {', replace='for (uint16_t i = 0; i <= registrySize; ++i) {', rule='R1', construct='linearSearchByName'),
    dict(id='linear-search-no-step', file='src/ace_time/ZoneRegistrar.h', unique=False, nth=1,
         find='for (uint16_t i = 0; i < registrySize; ++i) {', replace='for (uint16_t i = 0; i < registrySize; ) {', rule='R1-term', construct='linearSearchById'),
    dict(id='upper-bound-does-not-retreat', file='src/ace_time/ZoneRegistrar.h', find='          b = c;\n', replace='          b = c + 1;\n', rule='R1-term'),
    dict(id='lower-bound-does-not-advance', file='src/ace_time/ZoneRegistrar.h', find='          a = c + 1;\n', replace='          a = c;\n', rule='R1-term'),
    dict(id='found-on-less-or-equal', file='src/ace_time/ZoneRegistrar.h',
         find='if (STRCMP_P(name, ZIB(zoneInfo).name()) == 0) {', replace='if (STRCMP_P(name, ZIB(zoneInfo).name()) <= 0) {', rule='R2', construct='linearSearchByName'),
    dict(id='not-found-returns-zero', file='src/ace_time/ZoneRegistrar.h', unique=False, nth=2,
         find='      return kInvalidIndex;\n', replace='      return 0;\n', rule='R2'),
    dict(id='wrong-half-kept', file='src/ace_time/ZoneRegistrar.h',
         find='        if (compare < 0) {\n          b = c;\n        } else if (compare > 0) {\n          a = c + 1;',
         replace='        if (compare > 0) {\n          b = c;\n        } else if (compare < 0) {\n          a = c + 1;', rule='R2-dir'),
    dict(id='index-accessor-off-by-one', file='src/ace_time/ZoneRegistrar.h',
         find='return (i < mRegistrySize) ? ZRB(mZoneRegistry).zoneInfo(i) : nullptr;', replace='return (i <= mRegistrySize) ? ZRB(mZoneRegistry).zoneInfo(i) : nullptr;', rule='R1', construct='getZoneInfoForIndex'),
    dict(id='sentinel-test-deleted', file='src/ace_time/ZoneRegistrar.h', unique=False, nth=0,
         find='      if (index == kInvalidIndex) return nullptr;\n', replace='', rule='R1', construct='getZoneInfoForName'),
    dict(id='manager-null-test-deleted', file='src/ace_time/ZoneManager.h',
         find='      if (! zoneInfo) return TimeZone::forError();\n', replace='', rule='R3'),
    dict(id='manager-index-shifted', file='src/ace_time/ZoneManager.h',
         find='mZoneRegistrar.getZoneInfoForIndex(index);', replace='mZoneRegistrar.getZoneInfoForIndex(index + 1);', rule='R3'),
    dict(id='binary-search-on-unsorted', file='src/ace_time/ZoneRegistrar.h', find='      if (mIsSorted && mRegistrySize >= kBinarySearchThreshold) {', replace='      if (mIsSorted || mRegistrySize >= kBinarySearchThreshold) {',
         rule='R2-sorted'),
    dict(id='binary-search-gate-nested-silent', file='src/ace_time/ZoneRegistrar.h', regex=True,
         find=r'      if \(mIsSorted && mRegistrySize >= kBinarySearchThreshold\) \{\n        return binarySearchByName\(mZoneRegistry, mRegistrySize, name\);\n      \} else \{\n        return linearSearchByName\(mZoneRegistry, mRegistrySize, name\);\n      \}',
         replace='      if (mRegistrySize >= kBinarySearchThreshold) {\n        if (mIsSorted) {\n          return binarySearchByName(mZoneRegistry, mRegistrySize, name);\n        }\n      }\n      return linearSearchByName(mZoneRegistry, mRegistrySize, name);',
         expect='silent'),
    dict(id='issorted-stops-short', file='src/ace_time/ZoneRegistrar.h',
         find='for (uint16_t i = 1; i < registrySize; ++i) {', replace='for (uint16_t i = 1; i < registrySize - 1; ++i) {', rule='R2-cover'),
    dict(id='issorted-starts-late', file='src/ace_time/ZoneRegistrar.h',
         find='for (uint16_t i = 1; i < registrySize; ++i) {', replace='for (uint16_t i = 2; i < registrySize; ++i) {', rule='R2-cover'),
    dict(id='issorted-prev-not-advanced', file='src/ace_time/ZoneRegistrar.h',
         find='        prevName = currName;\n', replace='', rule='R2-cover'),
    dict(id='issorted-compare-skipped-for-last', file='src/ace_time/ZoneRegistrar.h',
         find='        if (STRCMP_PP(prevName, currName) > 0) {', replace='        if (i + 1 < registrySize && STRCMP_PP(prevName, currName) > 0) {', rule='R2-cover'),
    dict(id='issorted-condition-spelling-silent', file='src/ace_time/ZoneRegistrar.h',
         find='for (uint16_t i = 1; i < registrySize; ++i) {', replace='for (uint16_t i = 1; i != registrySize; ++i) {', expect='silent'),
    dict(id='issorted-compare-in-variable-silent', file='src/ace_time/ZoneRegistrar.h',
         find='        if (STRCMP_PP(prevName, currName) > 0) {', replace='        int cmp = STRCMP_PP(prevName, currName);\n        if (cmp > 0) {', expect='silent'),
    dict(id='midpoint-sum-spelling-silent', file='src/ace_time/ZoneRegistrar.h',
         find='uint16_t c = a + diff / 2;', replace='uint16_t c = (a + b) / 2;', expect='silent'),
    dict(id='while-condition-spelling-silent', file='src/ace_time/ZoneRegistrar.h', regex=True,
         find=r'while \(true\) \{\n        uint16_t diff = b - a;\n        if \(diff == 0\) break;\n\n        uint16_t c = a \+ diff / 2;',
         replace=r'while (a < b) {\n        uint16_t c = a + (b - a) / 2;', expect='silent'),
]
