"""C09-R2: every subscript of a fixed-size member array, and every store through a (pointer, size) parameter pair,
stays inside the capacity.  Class invariants (field <= capacity, index ordering) are *checked by induction* over
all member functions with the difference-bound interpreter; the few members that break an invariant on purpose
(pool protocol of TransitionStorage) form an explicit exception table, discharged by the data bounds of R5."""
from .common import AnalysisError
from .absint import AbsInt, DBM, Hooks, INF, Obligation
from .cxx import int_type, nty
from .ir import E, walk_stmts, walk_expr, all_exprs, stmt_exprs, show
from .paths import path_of, Engine, Rule
from .rules_C08 import field_writes, _root

# class -> list of invariants  (x, y, c) meaning x - y <= c ; names starting with '::' are constants of the class
INVARIANTS = {
    'ace_time::BasicZoneProcessor': [('this.mNumTransitions', 'ace_time::BasicZoneProcessor::kMaxCacheEntries', 0)],
    'ace_time::ExtendedZoneProcessor': [('this.mNumMatches', 'ace_time::ExtendedZoneProcessor::kMaxMatches', 0)],
    'ace_time::extended::TransitionStorage': [('this.mIndexPrior', 'this.mIndexCandidates', 0),
                                             ('this.mIndexCandidates', 'this.mIndexFree', 0),
                                             ('this.mIndexFree', '#SIZE', 0)],
}

# (function, what) -> reason.  These members are unguarded by design; the obligation is discharged by data:
# C09-R5-buf (recorded transitionBufSize < kMaxTransitions for every shipped zone).
EXCEPTIONS = {
    ('ace_time::extended::TransitionStorage::reservePrior', 'inv'):
        'reserves the slot after the candidates without a capacity test (mIndexCandidates++, mIndexFree++): safe only while '
        'fewer than SIZE slots are in use, which the recorded transitionBufSize < kMaxTransitions bounds (R5-buf)',
    ('ace_time::extended::TransitionStorage::reservePrior', 'index'):
        'returns &mTransitions[mIndexPrior], written through by the caller: same pool-protocol bound as above',
    ('ace_time::extended::TransitionStorage::addPriorToCandidatePool', 'inv'):
        'mIndexCandidates-- relies on reservePrior() having been called in the same round (pool protocol), not on a local test',
    ('ace_time::extended::TransitionStorage::setFreeAgentAsPrior', 'index'):
        'swaps slot mIndexFree with the prior slot without a capacity test: pool protocol, discharged by R5-buf',
    ('ace_time::extended::TransitionStorage::getPrior', 'index'):
        'reads mTransitions[mIndexPrior] (the reserved prior slot): pool protocol, discharged by R5-buf',
}


def _extent(ty):
    if ty and ty.rstrip().endswith(']') and '[' in ty:
        try:
            return int(ty[ty.rindex('[') + 1:ty.rindex(']')])
        except ValueError:
            return None
    return None


class StoreHooks(Hooks):
    def __init__(self, lib, fn, cls, invs, size_pairs, retbounds, memo):
        self.lib, self.fn, self.cls, self.invs = lib, fn, cls, invs
        self.size_pairs = size_pairs      # ptr param -> size param of this function
        self.retbounds = retbounds        # callee qualified name -> index of the size parameter bounding the result
        self.memo = memo
        # `&array[i]` only forms a pointer: one past the last element is a valid pointer value (the end of a range), so the
        # subscript may equal the extent there; a subscript that is read or written must be below it
        # (an address handed to a callee is dereferenced there and gets no such allowance)
        self.addr_only = set()
        passed = set()
        for e in all_exprs(fn.body):
            if e.k == 'call':
                for x in e.a[2]:
                    while x.k in ('cast', 'ptrcast'):
                        x = x.a[-1]
                    if x.k == 'addr':
                        passed.add(id(x))
        for e in all_exprs(fn.body):
            if e.k == 'addr' and e.a[0].k == 'index' and id(e) not in passed:
                self.addr_only.add(id(e.a[0]))

    def assume_invariants(self, st, fields=None):
        for x, y, c in self.invs:
            if fields is None or x.split('.')[-1] in fields or y.split('.')[-1] in fields:
                st.add(x, y, c)

    def on_call(self, ai, e, st):
        callee = self.lib.fns(e.a[0])
        if not callee:
            return
        recv = e.a[1]
        if recv is not None:
            kind, nm = _root(recv)
            if kind == 'this' and nm is None and self.cls:
                w = field_writes(self.lib, callee[0], self.memo)
                for f in w:
                    p = 'this.' + f
                    if p in st.vars():
                        st.forget(p)
                        ai.clamp_type(st, p)
                # by induction the callee re-establishes the invariants of this class
                self.assume_invariants(st, w)

    def on_assign(self, ai, x, rhs, st):
        r = rhs
        while r.k == 'cast':
            r = r.a[2]
        if r.k == 'call' and r.a[0] in self.retbounds:
            i = self.retbounds[r.a[0]]
            if i < len(r.a[2]):
                a = r.a[2][i]
                v = ai.lin(a, st)
                if v[0] == 'lin':
                    st.add(x, v[1] or '0', v[2])

    def on_index(self, ai, e, st):
        base = e.a[0]
        n = None
        cap_var = None
        bp = path_of(base) if base.k in ('var', 'field') else None
        if base.ty and _extent(base.ty) is not None and (bp or '').startswith('this.'):
            n = _extent(base.ty)
        elif base.k == 'var' and base.a[0] in self.size_pairs:
            cap_var = self.size_pairs[base.a[0]]
        else:
            return
        v = ai.lin(e.a[1], st)
        lo, hi = ai.range_of(v, st)
        c = '%s:%s' % (self.fn.name, show(e).replace('ace_time::', ''))
        slack = 1 if id(e) in self.addr_only else 0
        if n is not None:
            ok = lo >= 0 and hi <= n - 1 + slack
            msg = 'index %s ranges over [%s, %s] but %s has %d elements' % (show(e.a[1]), _b(lo), _b(hi), show(base), n)
        else:
            ok = lo >= 0
            if v[0] == 'lin' and v[1] is not None:
                ok = ok and st.get(v[1], cap_var) + v[2] <= -1
            elif v[0] == 'lin':
                ok = ok and st.get('0', cap_var) <= -(v[2] + 1)
            elif v[0] == 'diff' and v[1] == cap_var and v[3] == 0:
                # size - k with k >= 1
                ok = ok and -st.get('0', v[2]) >= 1 and st.get(v[2], cap_var) <= 0
            else:
                ok = False
            msg = 'cannot prove 0 <= %s < %s for the buffer %s' % (show(e.a[1]), cap_var, show(base))
        ai.obligations.append(Obligation('index', e.loc, c, msg, ok, st.describe()))


def _b(x):
    return '-inf' if x == -INF else '+inf' if x == INF else str(int(x))


def _size_pairs(fn):
    """pointer parameter immediately followed by an integer parameter named max*/…Size -> (ptr, size)."""
    out = {}
    ps = fn.params
    for i in range(len(ps) - 1):
        (pn, pt), (sn, stt) = ps[i], ps[i + 1]
        if pt and pt.rstrip().endswith('*') and 'const' not in pt.split('*')[0] and int_type(stt) and \
                (sn.lower().startswith('max') or sn.lower().endswith('size')):
            out[pn] = sn
    return out


def _class_of(fn):
    return fn.cls


def store_rules(cfg, R, lib):
    R.rule('R2-inv', 'class invariants (count <= capacity, pool index ordering) are preserved by every member function', floor=25)
    R.rule('R2-index', 'every subscript of a fixed-size member array / sized buffer parameter is inside its capacity', floor=25)
    R.rule('R2-size', 'every (buffer, size) argument pair passes the extent of the array it passes, and size >= 1', floor=5)
    R.rule('R2-const', 'constant subscripts of local and member arrays are inside the extent', floor=4)
    R.rule('R2-copy', 'copyAndReplace(): interpreted on every short source string, replacement and buffer size, it writes inside dst[0..dstSize-1] only, reads src up to its terminator only and leaves dst NUL-terminated', floor=200)
    memo = {}
    # -- return bounds of helper functions -------------------------------------------------------------
    retbounds = {}
    for q in ('ace_time::ExtendedZoneProcessor::findMatches', 'ace_time::ExtendedZoneProcessor::calcInteriorYears'):
        f = lib.fn(q)
        pairs = _size_pairs(f)
        if len(pairs) != 1:
            raise AnalysisError('anchor moved: %s is expected to take one (buffer, size) pair, found %r' % (q, pairs))
        size = list(pairs.values())[0]
        idx = [p for p, _ in f.params].index(size)
        hooks = StoreHooks(lib, f, None, [], pairs, {}, memo)
        ai = AbsInt(fold_global=lib.global_value, hooks=hooks)
        st = DBM()
        for pn, pt in f.params:
            ai.declare(st, pn, pt)
        st.add('0', size, -1)      # caller fact, checked under R2-size: size >= 1
        ai.run(f.body, st)
        ok = bool(ai.ret_states)
        for s, rst in ai.ret_states:
            e = s.a[0]
            while e.k == 'cast':
                e = e.a[2]
            p = path_of(e) if e.k == 'var' else None
            if p is None or rst.get(p, size) > 0:
                ok = False
        R.instance('R2-inv', q + ':result<=' + size, f.loc)
        if ok:
            retbounds[q] = idx
        else:
            R.violation('R2-inv', q + ':result<=' + size, f.loc, 'cannot prove that the returned count is at most %s' % size)
        report(R, lib, f, ai, 'R2-index')
    # -- class invariants and member subscripts ----------------------------------------------------------
    for cls, invs0 in INVARIANTS.items():
        for cnode in [c for c in lib.classes.get(cls, []) if not c.get('_primary')]:
            inst = cnode.get('_inst')
            invs = []
            for x, y, c in invs0:
                if y == '#SIZE':
                    arr = [t for n, t, _ in lib.fields(cls, inst) if n == 'mTransitions']
                    if not arr or _extent(arr[0]) is None:
                        raise AnalysisError('anchor moved: %s::mTransitions is not a fixed array' % cls)
                    invs.append((x, '0', _extent(arr[0]) + c))
                elif '::' in y:
                    invs.append((x, '0', lib.const(y) + c))
                else:
                    invs.append((x, y, c))
            fns = [f for q, fs in lib.funcs.items() if q.startswith(cls + '::') and q.count('::') == cls.count('::') + 1
                   for f in fs if f.inst == inst and f.node.get('kind') == 'CXXMethodDecl']
            if not fns:
                raise AnalysisError('anchor vanished: no member functions of %s' % cls)
            for f in fns:
                if f.name.split('::')[-1] in ('log',):
                    continue
                pairs = _size_pairs(f)
                hooks = StoreHooks(lib, f, cls, invs, pairs, retbounds, memo)
                ai = AbsInt(fold_global=lib.global_value, hooks=hooks)
                st = DBM()
                for pn, pt in f.params:
                    ai.declare(st, pn, pt)
                for n, t, _ in lib.fields(cls, inst):
                    it = int_type(t)
                    if it:
                        ai.types['this.' + n] = it
                        ai.clamp_type(st, 'this.' + n)
                static = f.is_static
                if not static:
                    hooks.assume_invariants(st)
                for sp in pairs.values():
                    st.add('0', sp, -1)
                try:
                    out = ai.run(f.body, st)
                except AnalysisError as ex:
                    raise AnalysisError('%s: %s' % (f.name, ex))
                report(R, lib, f, ai, 'R2-index')
                if static:
                    continue
                exits = [rst for _s, rst in ai.ret_states]
                if not out.bottom:
                    exits.append(out)
                written = field_writes(lib, f, memo)
                for x, y, c in invs:
                    if x.split('.')[-1] not in written and y.split('.')[-1] not in written:
                        continue
                    cid = '%s:%s' % (f.name, _inv_str(x, y, c))
                    R.instance('R2-inv', cid, f.loc)
                    bad = [e_ for e_ in exits if e_.get(x, y) > c]
                    if bad:
                        exc = EXCEPTIONS.get((f.name, 'inv'))
                        if exc:
                            R.exception('R2-inv', cid, exc)
                        elif pool_interpreted_clean(cfg, lib, f.name):
                            R.undecided_obligation('R2-inv', cid, f.loc, '%s is NOT PROVED to be preserved by the interval analysis (the operation walks the pool in a form it cannot '
                                                   'follow); interpreted on every small pool (rules_C04 R9) the three section indexes come out where they belong' % _inv_str(x, y, c))
                        else:
                            R.violation('R2-inv', cid, f.loc, 'the member function can return with %s violated (known at exit: %s)' %
                                        (_inv_str(x, y, c), bad[0].describe({x, y})))
    # -- (buffer, size) call sites ---------------------------------------------------------------------------
    sized = {}
    for q, fs in lib.funcs.items():
        if q.startswith('ace_time::') and fs:
            p = _size_pairs(fs[0])
            if p:
                sized[q] = (fs[0], p)
    for q, fs in lib.funcs.items():
        if not q.startswith('ace_time::'):
            continue
        seen_locs = set()
        for f in fs:
            if f.loc in seen_locs:
                continue
            seen_locs.add(f.loc)
            for e in all_exprs(f.body):
                if e.k == 'call' and e.a[0] in sized:
                    callee, pairs = sized[e.a[0]]
                    names = [p for p, _ in callee.params]
                    for ptr, size in pairs.items():
                        i, j = names.index(ptr), names.index(size)
                        if j >= len(e.a[2]):
                            continue
                        pa, sa = e.a[2][i], e.a[2][j]
                        c = '%s->%s(%s)' % (f.name, e.a[0].split('::')[-1], ptr)
                        R.instance('R2-size', c, e.loc)
                        sv = sa
                        while sv.k == 'cast':
                            sv = sv.a[2]
                        val = lib_fold(lib, sa)
                        ext = _extent(pa.ty) if pa.ty else None
                        if ext is None and pa.k == 'var':
                            # forwarded (buffer, size) pair of the caller itself
                            mine = _size_pairs(f)
                            if mine.get(pa.a[0]) == (sv.a[0] if sv.k == 'var' else None):
                                continue
                        if val is None or ext is None:
                            R.violation('R2-size', c, e.loc, 'cannot relate the size argument %s to the extent of the buffer %s' % (show(sa), show(pa)))
                        elif not (1 <= val <= ext):
                            R.violation('R2-size', c, e.loc, 'size argument %d does not fit the buffer %s of %d elements (or is 0)' % (val, show(pa), ext))
    # -- constant subscripts ------------------------------------------------------------------------------------
    for q, fs in lib.funcs.items():
        if not q.startswith('ace_time::'):
            continue
        seen_locs = set()
        for f in fs:
            if f.loc in seen_locs:
                continue
            seen_locs.add(f.loc)
            for s in walk_stmts(f.body):
                if s.k == 'assign' and s.a[0].k == 'index':
                    ix = s.a[0]
                    ext = _extent(ix.a[0].ty)
                    i = ix.a[1]
                    v = lib_fold(lib, i)
                    if ext is not None and v is not None:
                        c = '%s:%s' % (f.name, show(ix).replace('ace_time::', ''))
                        R.instance('R2-const', c, s.loc)
                        if not (0 <= v < ext):
                            R.violation('R2-const', c, s.loc, 'constant subscript %d is outside %s of %d elements' % (v, show(ix.a[0]), ext))
    for q in ('ace_time::BasicZoneProcessor::copyAndReplace', 'ace_time::ExtendedZoneProcessor::copyAndReplace'):
        copy_eval(R, lib, lib.fn(q))


def lib_fold(lib, e):
    if e.k == 'const':
        return e.a[0]
    if e.k == 'cast':
        v = lib_fold(lib, e.a[2])
        if v is not None:
            from .cxx import wrap
            return wrap(v, e.a[0], e.a[1])
    if e.k == 'var':
        return lib.global_value(e.a[0])
    if e.k == 'bin':
        from .cxx import fold_binop
        a, b = lib_fold(lib, e.a[1]), lib_fold(lib, e.a[2])
        if a is not None and b is not None:
            return fold_binop(e.a[0], a, b)
    return None


def _inv_str(x, y, c):
    x, y = x.replace('this.', ''), y.replace('this.', '')
    if y == '0':
        return '%s<=%d' % (x, c)
    return '%s<=%s%s' % (x, y, ('+%d' % c) if c else '')


_POOL_CLEAN = {}


def pool_interpreted_clean(cfg, lib, fname):
    """the two in-place pool operations of TransitionStorage are interpreted (E-SEQ) on every small pool by rules_C04.pool_rules:
    True when that interpretation raises nothing for this function (every index stayed inside the array, the pool stayed a
    permutation of its objects, the three section indexes came out where they belong) - pools without a free slot included"""
    short = fname.split('::')[-1]
    if short not in ('addFreeAgentToCandidatePool', 'addActiveCandidatesToActivePool'):
        return False
    if 'done' not in _POOL_CLEAN:
        from . import rules_C04, py

        class Sink:
            def __init__(self):
                self.cfg, self.bad = cfg, []

            def rule(self, *a, **k):
                pass

            def instance(self, *a, **k):
                pass

            def note(self, *a, **k):
                pass

            def violation(self, rid, c, loc, msg, **k):
                self.bad.append(c)
        s = Sink()
        try:
            rules_C04.pool_rules(s, lib, py.load(cfg, rules_C04.ZS), full=True)
            _POOL_CLEAN['bad'] = set(s.bad)
        except Exception as ex:            # an index outside the array, a body the evaluator cannot follow: not clean
            _POOL_CLEAN['bad'] = {'*'}
        _POOL_CLEAN['done'] = True
    bad = _POOL_CLEAN['bad']
    return '*' not in bad and not any(short in c for c in bad)


def report(R, lib, f, ai, rid):
    seen = set()
    for ob in ai.obligations:
        if ob.kind != 'index':
            continue
        key = (ob.construct, ob.loc)
        R.instance(rid, ob.construct, ob.loc)
        if ob.ok or key in seen:
            continue
        seen.add(key)
        exc = EXCEPTIONS.get((f.name, 'index'))
        if exc:
            R.exception(rid, ob.construct, exc)
        elif pool_interpreted_clean(R.cfg, lib, f.name):
            R.undecided_obligation(rid, ob.construct, ob.loc, ob.msg + ' - NOT PROVED by the interval analysis (the operation walks the pool in a form it cannot follow); '
                                   'interpreted on every small pool (rules_C04 R9) it stays inside the array and keeps the three section indexes where they belong')
        else:
            R.violation(rid, ob.construct, ob.loc, ob.msg + '; known: ' + ob.state)


def copy_eval(R, lib, f):
    """copyAndReplace(dst, dstSize, src, oldChar, newChar | newString) interpreted (E-SEQ, typed) on every source string of up to
    dstSize + 2 characters over {'a', oldChar}, every replacement ('-' meaning nothing / another character; strings of 0..3
    characters) and every buffer size 1..5 (thorough: 1..7).  The buffer is followed by guard cells, the strings end at their
    terminator: a store outside dst[0..dstSize-1], a read past a terminator or a result without NUL is reported."""
    import itertools
    from .aeval import AEval, CxxModule, Raised
    mod = CxxModule(lib, ['ace_time::'])
    if len(f.params) != 5:
        raise AnalysisError('anchor moved: %s is expected to take (dst, dstSize, src, oldChar, replacement)' % f.name)
    by_string = '*' in (f.params[4][1] or '')
    OLD, A, G = ord('%'), ord('a'), 0x7f
    repls = ([[0], [ord('X'), 0], [ord('X'), ord('Y'), 0], [ord('X'), ord('Y'), ord('Z'), 0]] if by_string else [ord('-'), ord('X')])
    sizes = range(1, 8 if R.cfg.tier == 'thorough' else 6)
    n, bad = 0, None
    for size in sizes:
        for ln in range(0, size + 3):
            for body in itertools.product((A, OLD), repeat=ln):
                for rp in repls:
                    n += 1
                    dst = [G] * size + [G, G]
                    src = list(body) + [0]
                    what = None
                    try:
                        AEval(module=mod, typed=True, max_steps=20000).call_function(f.name, [dst, size, src, OLD, list(rp) if by_string else rp], chosen=CxxModule._Fn(f))
                    except IndexError as x_:
                        what = 'reads or writes outside its arrays (%s)' % x_
                    except AnalysisError as x_:
                        if 'subscript' not in str(x_) and 'index' not in str(x_).lower():
                            raise
                        what = 'reads or writes outside its arrays (%s)' % x_
                    except Raised as x_:
                        what = 'raises %s' % x_.what
                    if what is None and dst[size:] != [G, G]:
                        what = 'writes past dst[dstSize-1]'
                    if what is None and 0 not in dst[:size]:
                        what = 'leaves dst without a terminating NUL'
                    if what and bad is None:
                        bad = 'dstSize %d, src "%s", replacement %s: %s' % (size, ''.join(chr(c) for c in body),
                                                                          repr(''.join(chr(c) for c in rp[:-1])) if by_string else repr(chr(rp)), what)
    R.instance('R2-copy', f.name, f.loc, '%d (buffer size, source, replacement) cases interpreted' % n, n=n)
    if bad:
        R.violation('R2-copy', f.name, f.loc, bad)
