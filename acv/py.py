"""Python front end: stdlib `ast` loader for tools/, module/class/function index, lowering to the IR."""
import ast
import os

from .common import AnalysisError
from .ir import E, S

BINOPS = {ast.Add: '+', ast.Sub: '-', ast.Mult: '*', ast.FloorDiv: '//', ast.Mod: '%%', ast.Div: '/f',
          ast.LShift: '<<', ast.RShift: '>>', ast.BitAnd: '&', ast.BitOr: '|', ast.BitXor: '^', ast.Pow: '**'}
CMPOPS = {ast.Eq: '==', ast.NotEq: '!=', ast.Lt: '<', ast.LtE: '<=', ast.Gt: '>', ast.GtE: '>=',
          ast.In: 'in', ast.NotIn: 'notin', ast.Is: '==', ast.IsNot: '!='}


class PyFunc:
    def __init__(self, mod, node, cls=None):
        self.mod = mod
        self.node = node
        self.cls = cls
        self.short = node.name
        self.name = (cls + '.' if cls else '') + node.name
        self.loc = '%s:%d' % (mod.rel, node.lineno)
        a = node.args
        self.params = [x.arg for x in a.posonlyargs + a.args] + [x.arg for x in a.kwonlyargs]
        self.annotations = {x.arg: (ast.unparse(x.annotation) if x.annotation is not None else None)
                            for x in a.posonlyargs + a.args + a.kwonlyargs}
        self.returns = ast.unparse(node.returns) if node.returns is not None else None
        self._body = None

    @property
    def body(self):
        if self._body is None:
            from .ir import normalise
            self._body = normalise(PyLowerer(self.mod, self).block(self.node.body))
        return self._body

    def __repr__(self):
        return '<PyFunc %s @%s>' % (self.name, self.loc)


class PyModule:
    def __init__(self, cfg, relpath):
        self.cfg = cfg
        self.rel = relpath
        self.path = os.path.join(cfg.repo, relpath)
        if not os.path.exists(self.path):
            raise AnalysisError('anchor vanished: %s does not exist' % relpath)
        with open(self.path, encoding='utf-8') as fh:
            self.text = fh.read()
        try:
            self.tree = ast.parse(self.text, filename=self.path)
        except SyntaxError as e:
            raise AnalysisError('%s does not parse: %s' % (relpath, e))
        self.lines = self.text.split('\n')
        self.funcs = {}      # 'f' or 'Class.m' -> PyFunc
        self.classes = {}    # name -> ClassDef
        self.class_consts = {}  # 'Class.NAME' -> value node
        self.consts = {}     # module-level NAME -> value node
        self.imports = {}    # local name -> dotted origin
        for n in self.tree.body:
            self._top(n)

    def _top(self, n):
        if isinstance(n, (ast.FunctionDef, ast.AsyncFunctionDef)):
            self.funcs[n.name] = PyFunc(self, n)
        elif isinstance(n, ast.ClassDef):
            self.classes[n.name] = n
            for m in n.body:
                if isinstance(m, (ast.FunctionDef, ast.AsyncFunctionDef)):
                    self.funcs[n.name + '.' + m.name] = PyFunc(self, m, n.name)
                elif isinstance(m, ast.Assign):
                    for t in m.targets:
                        if isinstance(t, ast.Name):
                            self.class_consts[n.name + '.' + t.id] = m.value
                elif isinstance(m, ast.AnnAssign) and isinstance(m.target, ast.Name) and m.value is not None:
                    self.class_consts[n.name + '.' + m.target.id] = m.value
        elif isinstance(n, ast.Assign):
            for t in n.targets:
                if isinstance(t, ast.Name):
                    self.consts[t.id] = n.value
        elif isinstance(n, ast.AnnAssign) and isinstance(n.target, ast.Name) and n.value is not None:
            self.consts[n.target.id] = n.value
        elif isinstance(n, ast.Import):
            for a in n.names:
                self.imports[a.asname or a.name.split('.')[0]] = a.name
        elif isinstance(n, ast.ImportFrom):
            for a in n.names:
                self.imports[a.asname or a.name] = (n.module or '') + '.' + a.name
        elif isinstance(n, (ast.If, ast.Try)):
            for b in getattr(n, 'body', []):
                self._top(b)

    def fn(self, name):
        f = self.funcs.get(name)
        if f is None:
            raise AnalysisError('anchor vanished: no function %s in %s' % (name, self.rel))
        return f

    def cls(self, name):
        c = self.classes.get(name)
        if c is None:
            raise AnalysisError('anchor vanished: no class %s in %s' % (name, self.rel))
        return c

    def methods(self, cls):
        return [f for q, f in self.funcs.items() if f.cls == cls]

    def class_const(self, cls, name):
        v = self.class_consts.get(cls + '.' + name)
        if v is None:
            raise AnalysisError('anchor vanished: %s.%s in %s' % (cls, name, self.rel))
        return v

    def typed_dict_keys(self, name):
        """Keys of a TypedDict declared either as a class or with the functional spelling."""
        if name in self.classes:
            c = self.classes[name]
            return [m.target.id for m in c.body if isinstance(m, ast.AnnAssign) and isinstance(m.target, ast.Name)]
        v = self.consts.get(name)
        if isinstance(v, ast.Call) and v.args and len(v.args) >= 2 and isinstance(v.args[1], ast.Dict):
            return [k.value for k in v.args[1].keys if isinstance(k, ast.Constant)]
        raise AnalysisError('anchor vanished: TypedDict %s in %s' % (name, self.rel))

    def loc(self, node):
        return '%s:%d' % (self.rel, getattr(node, 'lineno', 0))

    def const_node(self, name, depth=0):
        """(module, value node) of a module-level constant, following `from .sibling import NAME` one module at a time"""
        if name in self.consts:
            return self, self.consts[name]
        org = self.imports.get(name)
        if isinstance(org, str) and '.' in org and depth < 3:
            modn, _, attr = org.rpartition('.')
            here = os.path.dirname(self.rel)
            for base in (here, os.path.dirname(here), ''):
                rel = os.path.join(base, modn.replace('.', '/') + '.py')
                if os.path.exists(os.path.join(self.cfg.repo, rel)):
                    return load(self.cfg, rel).const_node(attr, depth + 1)
        return None

    def table_elems(self, name):
        """IR element expressions of a module-level constant tuple / list (for unrolling `for x in TABLE`), else None"""
        v = self.consts.get(name)
        if isinstance(v, (ast.Tuple, ast.List)) and len(v.elts) <= 64:
            e = PyLowerer(self).expr(v)
            return list(e.a[1])
        return None


class PyLowerer:
    def __init__(self, mod, func=None):
        self.mod = mod
        self.func = func

    def L(self, n):
        return '%s:%d' % (self.mod.rel, getattr(n, 'lineno', 0))

    def block(self, stmts):
        out = []
        for s in stmts:
            out.extend(self.stmt(s))
        return out

    def stmt(self, n):
        loc = self.L(n)
        if isinstance(n, ast.Assign):
            v = self.expr(n.value)
            return [S('assign', self.expr(t), v, '=', loc=loc, raw=n) for t in n.targets]
        if isinstance(n, ast.AugAssign):
            return [S('assign', self.expr(n.target), self.expr(n.value), BINOPS.get(type(n.op), '?') + '=', loc=loc, raw=n)]
        if isinstance(n, ast.AnnAssign):
            if n.value is None:
                return []
            return [S('assign', self.expr(n.target), self.expr(n.value), '=', loc=loc, raw=n)]
        if isinstance(n, ast.Expr):
            if isinstance(n.value, ast.Constant) and isinstance(n.value.value, str):
                return []  # docstring
            return [S('expr', self.expr(n.value), loc=loc, raw=n)]
        if isinstance(n, ast.If):
            return [S('if', self.expr(n.test), self.block(n.body), self.block(n.orelse), loc=loc, raw=n)]
        if isinstance(n, ast.For):
            init = [S('assign', self.expr(n.target), E('iter', self.expr(n.iter), loc=loc), '=', loc=loc, raw=n)]
            body = self.block(n.body)
            out = [S('loop', 'foreach', init, None, [], body, loc=loc, raw=n)]
            if n.orelse:
                out.append(S('block', self.block(n.orelse), loc=loc))
            return out
        if isinstance(n, ast.While):
            cond = None if (isinstance(n.test, ast.Constant) and n.test.value is True) else self.expr(n.test)
            return [S('loop', 'while', [], cond, [], self.block(n.body), loc=loc, raw=n)]
        if isinstance(n, ast.Break):
            return [S('break', loc=loc)]
        if isinstance(n, ast.Continue):
            return [S('continue', loc=loc)]
        if isinstance(n, ast.Return):
            return [S('return', self.expr(n.value) if n.value is not None else None, loc=loc, raw=n)]
        if isinstance(n, ast.Raise):
            return [S('raise', self.expr(n.exc) if n.exc is not None else None, loc=loc, raw=n)]
        if isinstance(n, ast.Try):
            hs = []
            for h in n.handlers:
                hs.append((ast.unparse(h.type) if h.type is not None else None, h.name, self.block(h.body)))
            body = self.block(n.body) + self.block(n.orelse)
            return [S('try', body, hs, self.block(n.finalbody), loc=loc, raw=n)]
        if isinstance(n, ast.With):
            return [S('with', [self.expr(i.context_expr) for i in n.items], self.block(n.body), loc=loc, raw=n)]
        if isinstance(n, ast.Assert):
            return [S('if', E('un', '!', self.expr(n.test), loc=loc), [S('raise', E('opaque', 'AssertionError', loc=loc), loc=loc)], [], loc=loc, raw=n)]
        if isinstance(n, (ast.Pass, ast.Global, ast.Nonlocal, ast.Import, ast.ImportFrom)):
            return []
        if isinstance(n, (ast.FunctionDef, ast.ClassDef)):
            return [S('expr', E('opaque', 'nested-def ' + n.name, loc=loc), loc=loc, raw=n)]
        if isinstance(n, ast.Delete):
            return [S('expr', E('call', 'del', None, [self.expr(t) for t in n.targets], loc=loc), loc=loc, raw=n)]
        raise AnalysisError('%s: statement kind %s is not a recognised idiom' % (loc, type(n).__name__))

    def callee(self, f):
        """(name, has_receiver).  self.m -> 'Class.m'; module.f -> dotted name without receiver;
        x.m -> 'm' with receiver x."""
        if isinstance(f, ast.Name):
            return f.id, False
        if isinstance(f, ast.Attribute):
            if isinstance(f.value, ast.Name) and f.value.id == 'self' and self.func is not None and self.func.cls:
                if (self.func.cls + '.' + f.attr) in self.mod.funcs:
                    return self.func.cls + '.' + f.attr, True
                return f.attr, True
            if isinstance(f.value, ast.Name) and f.value.id in self.mod.classes and (f.value.id + '.' + f.attr) in self.mod.funcs:
                return f.value.id + '.' + f.attr, False      # static call through the class name
            root = f.value
            while isinstance(root, ast.Attribute):
                root = root.value
            if isinstance(root, ast.Name) and root.id in self.mod.imports and root.id not in (self.func.params if self.func else ()):
                return ast.unparse(f), False
            return f.attr, True
        return ast.unparse(f), False

    def _str_format(self, n, loc):
        """'...{}...{name}...'.format(a, name=b) with a constant template is the f-string with the same holes (format
        specs and conversions are dropped, as for f-strings); anything fancier (attribute / index fields, nested fields,
        *args) is left as an ordinary call."""
        import string
        if any(isinstance(a, ast.Starred) for a in n.args) or any(kw.arg is None for kw in n.keywords):
            return None
        kws = {kw.arg: kw.value for kw in n.keywords}
        parts = []
        auto = 0
        try:
            fields = list(string.Formatter().parse(n.func.value.value))
        except ValueError:
            return None
        for lit, field, spec, _conv in fields:
            if lit:
                parts.append(E('str', lit, loc=loc))
            if field is None:
                continue
            if spec and '{' in spec:
                return None
            if field == '':
                if auto >= len(n.args):
                    return None
                parts.append(self.expr(n.args[auto]))
                auto += 1
            elif field.isdigit():
                if int(field) >= len(n.args):
                    return None
                parts.append(self.expr(n.args[int(field)]))
            elif field.isidentifier() and field in kws:
                parts.append(self.expr(kws[field]))
            else:
                return None
        return E('fstr', parts, loc=loc, raw=n)

    def _percent_format(self, n, loc):
        """'...%s...%d' % (a, b)  /  '...%s' % a  with a constant template -> the f-string with the same holes."""
        import re
        tmpl = n.left.value
        if isinstance(n.right, ast.Tuple):
            vals = list(n.right.elts)
        elif isinstance(n.right, (ast.Dict, ast.Starred)):
            return None
        else:
            vals = [n.right]
        toks = re.split(r'(%%|%[-+ #0]*\d*(?:\.\d+)?[sdirxXfg])', tmpl)
        parts = []
        k = 0
        for t in toks:
            if t == '%%':
                parts.append(E('str', '%', loc=loc))
            elif t.startswith('%') and len(t) > 1:
                if k >= len(vals):
                    return None
                parts.append(self.expr(vals[k]))
                k += 1
            elif '%' in t:
                return None
            elif t:
                parts.append(E('str', t, loc=loc))
        if k != len(vals):
            return None
        return E('fstr', parts, loc=loc, raw=n)

    def expr(self, n):
        loc = self.L(n)
        if isinstance(n, ast.Constant):
            v = n.value
            if v is None:
                return E('null', loc=loc)
            if isinstance(v, bool):
                return E('const', 1 if v else 0, loc=loc, ty='bool')
            if isinstance(v, int):
                return E('const', v, loc=loc)
            if isinstance(v, str):
                return E('str', v, loc=loc)
            return E('opaque', repr(v), loc=loc)
        if isinstance(n, ast.Name):
            return E('var', n.id, loc=loc, raw=n)
        if isinstance(n, ast.Attribute):
            return E('field', self.expr(n.value), n.attr, loc=loc, raw=n)
        if isinstance(n, ast.Subscript):
            return E('index', self.expr(n.value), self.expr(n.slice), loc=loc, raw=n)
        if isinstance(n, ast.Slice):
            return E('slice', self.expr(n.lower) if n.lower else E('null'), self.expr(n.upper) if n.upper else E('null'),
                     self.expr(n.step) if n.step else E('null'), loc=loc)
        if isinstance(n, ast.UnaryOp):
            op = {ast.Not: '!', ast.USub: '-', ast.UAdd: '+', ast.Invert: '~'}[type(n.op)]
            sub = self.expr(n.operand)
            if op == '-' and sub.k == 'const':
                return E('const', -sub.a[0], loc=loc)
            if op == '+':
                return sub
            return E('un', op, sub, loc=loc)
        if isinstance(n, ast.BinOp):
            if isinstance(n.op, ast.Mod) and isinstance(n.left, ast.Constant) and isinstance(n.left.value, str):
                f = self._percent_format(n, loc)
                if f is not None:
                    return f
            return E('bin', BINOPS.get(type(n.op), '?'), self.expr(n.left), self.expr(n.right), loc=loc, raw=n)
        if isinstance(n, ast.BoolOp):
            op = '&&' if isinstance(n.op, ast.And) else '||'
            vals = [self.expr(v) for v in n.values]
            e = vals[0]
            for v in vals[1:]:
                e = E('bin', op, e, v, loc=loc, raw=n)
            return e
        if isinstance(n, ast.Compare):
            parts = []
            left = n.left
            for op, right in zip(n.ops, n.comparators):
                parts.append(E('bin', CMPOPS[type(op)], self.expr(left), self.expr(right), loc=loc, raw=n))
                left = right
            e = parts[0]
            for p in parts[1:]:
                e = E('bin', '&&', e, p, loc=loc, raw=n)
            return e
        if isinstance(n, ast.Call):
            if isinstance(n.func, ast.Attribute) and n.func.attr == 'format' and isinstance(n.func.value, ast.Constant) \
                    and isinstance(n.func.value.value, str):
                f = self._str_format(n, loc)
                if f is not None:
                    return f
            name, has_recv = self.callee(n.func)
            recv = self.expr(n.func.value) if has_recv else None
            args = [self.expr(a) for a in n.args]
            for kw in n.keywords:
                args.append(E('kw', kw.arg, self.expr(kw.value), loc=loc))
            return E('call', name, recv, args, loc=loc, raw=n)
        if isinstance(n, ast.IfExp):
            return E('cond', self.expr(n.test), self.expr(n.body), self.expr(n.orelse), loc=loc, raw=n)
        if isinstance(n, (ast.Tuple, ast.List, ast.Set)):
            return E('init', type(n).__name__.lower(), [self.expr(x) for x in n.elts], loc=loc, raw=n)
        if isinstance(n, ast.Dict):
            return E('init', 'dict', [E('kv', self.expr(k) if k is not None else E('null'), self.expr(v), loc=loc)
                                      for k, v in zip(n.keys, n.values)], loc=loc, raw=n)
        if isinstance(n, ast.JoinedStr):
            parts = []
            for v in n.values:
                if isinstance(v, ast.Constant):
                    parts.append(E('str', v.value, loc=loc))
                elif isinstance(v, ast.FormattedValue):
                    parts.append(self.expr(v.value))
            return E('fstr', parts, loc=loc, raw=n)
        if isinstance(n, ast.Starred):
            return E('star', self.expr(n.value), loc=loc)
        if isinstance(n, (ast.ListComp, ast.SetComp, ast.GeneratorExp, ast.DictComp)):
            gens = []
            for g in n.generators:
                gens.append(E('gen', self.expr(g.target), self.expr(g.iter), [self.expr(c) for c in g.ifs], loc=loc))
            if isinstance(n, ast.DictComp):
                elt = E('kv', self.expr(n.key), self.expr(n.value), loc=loc)
            else:
                elt = self.expr(n.elt)
            return E('comp', type(n).__name__, elt, gens, loc=loc, raw=n)
        if isinstance(n, ast.Lambda):
            return E('opaque', 'lambda', loc=loc, raw=n)
        if isinstance(n, ast.NamedExpr):
            return E('assignexpr', self.expr(n.target), self.expr(n.value), loc=loc)
        return E('opaque', type(n).__name__, loc=loc, raw=n)


_MOD_CACHE = {}


def load(cfg, relpath):
    key = (cfg.repo, relpath)
    if key not in _MOD_CACHE:
        _MOD_CACHE[key] = PyModule(cfg, relpath)
    return _MOD_CACHE[key]


def const_value(cfg, mod, name, depth=0):
    """Fold a module-level integer/str constant, following `from x import NAME` inside tools/."""
    if depth > 6:
        return None
    if name in mod.consts:
        return fold(cfg, mod, mod.consts[name], depth)
    origin = mod.imports.get(name)
    if origin and '.' in origin:
        modpath, attr = origin.rsplit('.', 1)
        rel = 'tools/' + modpath.replace('.', '/') + '.py'
        if os.path.exists(os.path.join(cfg.repo, rel)):
            return const_value(cfg, load(cfg, rel), attr, depth + 1)
    return None


def fold(cfg, mod, node, depth=0):
    if isinstance(node, ast.Constant) and isinstance(node.value, (int, str)) and not isinstance(node.value, bool):
        return node.value
    if isinstance(node, ast.Name):
        return const_value(cfg, mod, node.id, depth + 1)
    if isinstance(node, ast.UnaryOp) and isinstance(node.op, ast.USub):
        v = fold(cfg, mod, node.operand, depth)
        return -v if isinstance(v, int) else None
    if isinstance(node, ast.BinOp):
        l, r = fold(cfg, mod, node.left, depth), fold(cfg, mod, node.right, depth)
        if isinstance(l, int) and isinstance(r, int):
            try:
                return {ast.Add: l + r, ast.Sub: l - r, ast.Mult: l * r, ast.FloorDiv: l // r if r else None,
                        ast.Mod: l % r if r else None, ast.Pow: l ** r if 0 <= r < 64 else None,
                        ast.LShift: l << r if 0 <= r < 64 else None}.get(type(node.op))
            except Exception:
                return None
    return None
