"""E-PATH: structured path analysis over the IR with a small rule-defined state.

A rule supplies:
  initial()                      -> iterable of states (hashable)
  event(e, state)                -> state | None      called for every sub-expression in evaluation order
  assign(stmt, state)            -> state | None      called for assign/decl statements after their expressions
  refine(cond, state, truth)     -> state | None      leaf condition taken as true/false (None = infeasible)
  case(subject, labels, state)   -> state | None      switch arm entry (labels None = no arm matched)
  at_exit(kind, stmt, state, tr) -> None               kind in return / raise / fallthrough
Each state carries one witness trace (list of 'loc: decision' strings) for diagnostics."""
from .common import AnalysisError
from .ir import E, S, show


class Rule:
    def initial(self):
        return [()]

    def event(self, e, st, tr):
        return st

    def assign(self, s, st, tr):
        return st

    def refine(self, cond, st, truth):
        return st

    def case(self, subject, labels, st):
        return st

    def at_exit(self, kind, stmt, st, tr):
        pass

    def loop_iter(self, s, st):
        return st


class States(dict):
    """state -> witness trace (first one found)."""

    def add(self, st, tr):
        if st is not None and st not in self:
            self[st] = tr

    def merge(self, other):
        for st, tr in other.items():
            self.add(st, tr)
        return self


class Engine:
    def __init__(self, rule, max_rounds=64):
        self.rule = rule
        self.max_rounds = max_rounds

    def _bool_defs(self, body):
        """locals that name a condition: declared once with a comparison / logical expression and never assigned again.
        A test of such a local is a test of the expression it names (`const bool inRange = lo <= y && y <= hi; if (!inRange)`)."""
        from .ir import walk_stmts
        assigned = {}
        for s in walk_stmts(body):
            if s.k == 'assign' and s.a[0].k == 'var':
                assigned[s.a[0].a[0]] = assigned.get(s.a[0].a[0], 0) + 1
        defs = {}
        for s in walk_stmts(body):
            if s.k == 'decl' and s.a[2] is not None and not assigned.get(s.a[0]):
                e = s.a[2]
                while e.k == 'cast':
                    e = e.a[2]
                if (e.k == 'bin' and e.a[0] in ('&&', '||', '<', '<=', '>', '>=', '==', '!=')) or (e.k == 'un' and e.a[0] == '!'):
                    from .ir import walk_expr
                    if any(x.k == 'var' and assigned.get(x.a[0]) for x in walk_expr(e)):
                        continue            # an operand changes later: the name and the expression may part ways
                    defs[s.a[0]] = e if s.a[0] not in defs else None       # two locals of that name: ambiguous
        return {k: v for k, v in defs.items() if v is not None}

    def run(self, body):
        self.bool_defs = self._bool_defs(body)
        self._quiet = 0
        init = States()
        for st in self.rule.initial():
            init.add(st, ())
        fall, brk, cont = self.block(body, init)
        for st, tr in fall.items():
            self.rule.at_exit('fallthrough', None, st, tr)
        if brk or cont:
            raise AnalysisError('break/continue outside a loop or switch')

    # -- statements -----------------------------------------------------------------
    def block(self, stmts, states):
        brk, cont = States(), States()
        cur = states
        for s in stmts:
            if not cur:
                break
            cur, b, c = self.stmt(s, cur)
            brk.merge(b)
            cont.merge(c)
        return cur, brk, cont

    def stmt(self, s, states):
        k, a = s.k, s.a
        none = States()
        if k in ('assign', 'decl'):
            exprs = [a[1], a[0]] if k == 'assign' else ([a[2]] if a[2] is not None else [])
            cur = states
            for i, e in enumerate(exprs):
                if k == 'assign' and i == 1:
                    cur = self.lvalue(e, cur)
                elif k == 'decl' and a[0] in getattr(self, 'bool_defs', {}):
                    # a named condition: its operands are evaluated here (events), its truth is split where it is tested
                    cur = self.events_only(e, cur)
                else:
                    cur = self.expr(e, cur)
            out = States()
            for st, tr in cur.items():
                out.add(self.rule.assign(s, st, tr), tr)
            return out, none, none
        if k == 'expr':
            return self.expr(a[0], states), none, none
        if k == 'if':
            t, f = self.branch(a[0], states, s.loc)
            ft, bt, ct = self.block(a[1], t)
            ff, bf, cf = self.block(a[2], f)
            return ft.merge(ff), bt.merge(bf), ct.merge(cf)
        if k == 'return' or k == 'raise':
            cur = self.expr(a[0], states) if a[0] is not None else states
            for st, tr in cur.items():
                self.rule.at_exit(k, s, st, tr)
            return none, none, none
        if k == 'break':
            return none, States(states), none
        if k == 'continue':
            return none, none, States(states)
        if k == 'block':
            return self.block(a[0], states)
        if k == 'with':
            cur = states
            for e in a[0]:
                cur = self.expr(e, cur)
            return self.block(a[1], cur)
        if k == 'switch':
            cur = self.expr(a[0], states)
            out = States()
            cont = States()
            carry = States()
            has_default = False
            for labels, blk in a[1]:
                entry = States(carry)
                if any(l is None for l in labels):
                    has_default = True
                for st, tr in cur.items():
                    st2 = self.rule.case(a[0], labels, st)
                    lab = ','.join('default' if l is None else show(l) for l in labels)
                    entry.add(st2, tr + ('%s: case %s' % (s.loc, _short(lab)),))
                f, b, c = self.block(blk, entry)
                carry = f
                out.merge(b)
                cont.merge(c)
            out.merge(carry)
            if not has_default:
                for st, tr in cur.items():
                    out.add(self.rule.case(a[0], None, st), tr + ('%s: no case matched' % s.loc,))
            return out, none, cont
        if k == 'loop':
            kind, init, cond, step, body = a
            cur, b0, c0 = self.block(init, states)
            head = States()
            exits = States()
            work = cur
            first = (kind == 'do')
            rounds = 0
            while work:
                rounds += 1
                if rounds > self.max_rounds:
                    raise AnalysisError('%s: loop state did not reach a fixpoint in %d rounds' % (s.loc, self.max_rounds))
                new = States()
                for st, tr in work.items():
                    if st not in head:
                        head[st] = tr
                        new[st] = tr
                if not new:
                    break
                if kind == 'foreach':
                    # zero or more iterations: the loop may exit at the head
                    t = States()
                    for st, tr in new.items():
                        exits.add(st, tr + ('%s: loop ends' % s.loc,))
                        t.add(self.rule.loop_iter(s, st), tr + ('%s: loop iterates' % s.loc,))
                elif cond is None or first:
                    t = new
                else:
                    t, f = self.branch(cond, new, s.loc)
                    exits.merge(f)
                f2, b2, c2 = self.block(body, t)
                exits.merge(b2)
                nxt = f2.merge(c2)
                nxt, b3, c3 = self.block(step, nxt)
                if kind == 'do' and cond is not None:
                    t3, f3 = self.branch(cond, nxt, s.loc)
                    exits.merge(f3)
                    nxt = t3
                first = False
                work = nxt
            return exits, none, none
        if k == 'try':
            f, b, c = self.block(a[0], states)
            # handlers may run from any point of the body: approximate with entry states and body-exit states
            hs = States(states)
            hs.merge(f)
            for _t, _n, blk in a[1]:
                hf, hb, hc = self.block(blk, States(hs))
                f.merge(hf)
                b.merge(hb)
                c.merge(hc)
            if a[2]:
                f, fb, fc = self.block(a[2], f)
                b.merge(fb)
                c.merge(fc)
            return f, b, c
        if k == 'pass':
            return states, none, none
        raise AnalysisError('%s: statement kind %s not handled by the path engine' % (s.loc, k))

    # -- expressions -----------------------------------------------------------------
    def lvalue(self, e, states):
        """sub-expressions of an assignment target (index / receiver), not the target itself."""
        if e.k == 'index':
            return self.expr(e.a[1], self.expr(e.a[0], states))
        if e.k == 'field':
            return self.expr(e.a[0], states)
        if e.k == 'deref':
            return self.expr(e.a[0], states)
        if e.k == 'init':
            cur = states
            for x in e.a[1]:
                cur = self.lvalue(x, cur)
            return cur
        return states

    def events_only(self, e, states):
        """every sub-expression is seen by the rule (in evaluation order) without splitting on && / || / ?:"""
        from .ir import walk_expr
        subs = list(walk_expr(e))
        cur = states
        for x in reversed(subs):       # operands before the operators that use them
            out = States()
            for st, tr in cur.items():
                out.add(self.rule.event(x, st, tr), tr)
            cur = out
        return cur

    def expr(self, e, states):
        if e is None or not isinstance(e, E):
            return states
        if getattr(self, '_quiet', 0):
            return states
        k, a = e.k, e.a
        if k == 'cond':
            t, f = self.branch(a[0], states, e.loc)
            return self.expr(a[1], t).merge(self.expr(a[2], f))
        if k == 'bin' and a[0] in ('&&', '||'):
            t, f = self.branch(e, states, e.loc)
            return t.merge(f)
        cur = states
        if k == 'call':
            if a[1] is not None:
                cur = self.expr(a[1], cur)
            for x in a[2]:
                cur = self.expr(x, cur)
        else:
            for x in a:
                if isinstance(x, E):
                    cur = self.expr(x, cur)
                elif isinstance(x, (list, tuple)):
                    for y in x:
                        if isinstance(y, E):
                            cur = self.expr(y, cur)
        out = States()
        for st, tr in cur.items():
            out.add(self.rule.event(e, st, tr), tr)
        return out

    def branch(self, cond, states, loc):
        """-> (states where cond holds, states where it does not)."""
        k, a = cond.k, cond.a
        if k == 'un' and a[0] == '!':
            t, f = self.branch(a[1], states, loc)
            return f, t
        if k == 'bin' and a[0] == '&&':
            t1, f1 = self.branch(a[1], states, loc)
            t2, f2 = self.branch(a[2], t1, loc)
            return t2, f1.merge(f2)
        if k == 'bin' and a[0] == '||':
            t1, f1 = self.branch(a[1], states, loc)
            t2, f2 = self.branch(a[2], f1, loc)
            return t1.merge(t2), f2
        leaf = cond
        while leaf.k == 'cast' or (leaf.k == 'un' and leaf.a[0] == 'bool'):
            leaf = leaf.a[-1]
        if leaf.k == 'var' and leaf.a[0] in getattr(self, 'bool_defs', {}):
            # the events of the named expression were seen where it was evaluated; here only its truth is split
            self._quiet += 1
            try:
                return self.branch(self.bool_defs[leaf.a[0]], states, loc)
            finally:
                self._quiet -= 1
        cur = self.expr(cond, states)
        t, f = States(), States()
        txt = _short(show(cond))
        for st, tr in cur.items():
            t.add(self.rule.refine(cond, st, True), tr + ('%s: %s is true' % (loc, txt),))
            f.add(self.rule.refine(cond, st, False), tr + ('%s: %s is false' % (loc, txt),))
        return t, f


def _short(s, n=70):
    s = s.replace('ace_time::', '')
    return s if len(s) <= n else s[:n - 3] + '...'


def path_of(e):
    """'this.mX.f' style path of an l-value expression, or None."""
    if e.k == 'var':
        return e.a[0]
    if e.k == 'this':
        return 'this'
    if e.k == 'field':
        b = path_of(e.a[0])
        return None if b is None else b + '.' + e.a[1]
    if e.k in ('deref', 'addr', 'cast', 'ptrcast'):
        return path_of(e.a[-1])
    if e.k == 'un' and e.a[0] == 'bool':
        return path_of(e.a[1])
    return None
