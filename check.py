#!/usr/bin/env python3
"""Entry point of the static checks.

  check.py <Cxx> [--tier quick|thorough] [--repo DIR]   decide property Cxx on the tree in DIR (/repo)
  check.py <Cxx> --replay FILE                          re-run and show whether the recorded construct still violates
  check.py --selfcheck                                  toolchain + front ends parse the current tree
  check.py --all [--tier T]                             every claimed property, in parallel
exit 0: held on everything analysed; 1: VIOLATION line(s) printed; 2: ANALYSIS-ERROR (fail closed)
"""
import argparse
import importlib
import json
import os
import sys
import traceback

sys.path.insert(0, os.path.dirname(os.path.abspath(__file__)))

from acv.common import AnalysisError, Config, VERIF, finish  # noqa: E402

PROPS = ['C%02d' % i for i in range(1, 21)]


def rule_module(pid):
    try:
        return importlib.import_module('acv.rules_%s' % pid)
    except ModuleNotFoundError as e:
        if e.name == 'acv.rules_%s' % pid:
            return None
        raise


def run_property(pid, cfg, replay=None, evidence_dir=None, write_evidence=True):
    mod = rule_module(pid)
    if mod is None:
        print('ANALYSIS-ERROR: property %s has no check (not claimed; see MANIFEST not_applicable)' % pid)
        return 2
    try:
        report = mod.run(cfg)
        meta = getattr(mod, 'META', {})
        st_bad = []
        if cfg.tier == 'thorough' and getattr(mod, 'SELFTEST', None) and not replay and not os.environ.get('ACV_NO_SELFTEST'):
            from acv import selftest
            res = selftest.run(pid, mod.SELFTEST, cfg, report.findings)
            summary = {'fired': 0, 'silent': 0, 'skipped': 0, 'failed': 0}
            for r in res:
                st = r['status']
                if st in ('fired', 'silent', 'skipped'):
                    summary[st] += 1
                else:
                    summary['failed'] += 1
                    st_bad.append(r)
                print('  selftest %-34s %s %s' % (r['id'], st, r.get('report', r.get('why', ''))))
            report.analysed['selftest'] = {'summary': summary, 'variants': [
                {k: v for k, v in r.items() if k != 'out'} for r in res]}
        rc = finish(report, level='other', explanation=meta.get('explanation', ''),
                    assumptions=meta.get('assumptions', ()), decided=meta.get('decided', ''),
                    not_decided=meta.get('not_decided', ''), evidence_dir=evidence_dir,
                    write_evidence=write_evidence)
        if st_bad:
            for r in st_bad:
                print('ANALYSIS-ERROR: property=%s selftest variant %s: %s\n%s' % (pid, r['id'], r['status'], r.get('out', '')))
            return rc or 2
        if replay:
            rec = json.load(open(replay))
            hit = [f for f in report.findings if f.rule == rec.get('rule') and f.construct == rec.get('construct')]
            print('REPLAY %s rule=%s construct=%s: %s' % (pid, rec.get('rule'), rec.get('construct'),
                                                         'still violates' if hit else 'no longer reported'))
            return 1 if hit else 0
        return rc
    except AnalysisError as e:
        from acv import common
        rep = common.MAIN_REPORT
        if rep is not None and rep.pid == pid and rep.findings and not replay:
            # rules that ran before the error found something: report it (exit 1 if it is new), then the error
            meta = getattr(mod, 'META', {})
            try:
                return finish(rep, level='other', explanation=meta.get('explanation', ''), assumptions=meta.get('assumptions', ()),
                              decided=meta.get('decided', ''), not_decided=meta.get('not_decided', ''), evidence_dir=evidence_dir,
                              write_evidence=write_evidence, incomplete=str(e))
            except AnalysisError:
                pass
        print('ANALYSIS-ERROR: property=%s %s' % (pid, e))
        return 2
    except Exception:
        traceback.print_exc()
        print('ANALYSIS-ERROR: property=%s internal error in the checker (see traceback)' % pid)
        return 2


def selfcheck(cfg):
    from acv import cxx, py, tables
    try:
        tu = cxx.load_lib(cfg)
        print('selfcheck: library TU parsed: %d function definitions, %d classes' % (len(tu.funcs), len(tu.classes)))
        for db in ('zonedb', 'zonedbx'):
            t = tables.CxxTables(cfg, db)
            print('selfcheck: %s tables: %d zones, %d policies' % (db, len(t.infos), len(t.policies)))
        p = tables.PyTables(cfg)
        print('selfcheck: zonedbpy: %d zones' % len(p.infos))
        m = py.load(cfg, 'tools/tzdb/transformer.py')
        print('selfcheck: transformer.py: %d functions' % len(m.funcs))
    except AnalysisError as e:
        print('ANALYSIS-ERROR: selfcheck: %s' % e)
        return 2
    return 0


def main():
    ap = argparse.ArgumentParser()
    ap.add_argument('prop', nargs='?')
    ap.add_argument('--tier', default=os.environ.get('VERIF_TIER', 'quick'), choices=['quick', 'thorough'])
    ap.add_argument('--repo', default=os.environ.get('ACV_REPO', '/repo'))
    ap.add_argument('--replay')
    ap.add_argument('--selfcheck', action='store_true')
    ap.add_argument('--all', action='store_true')
    ap.add_argument('--evidence-dir')
    ap.add_argument('--no-evidence', action='store_true')
    ap.add_argument('--jobs', type=int, default=16)
    a = ap.parse_args()
    try:
        seed = int(os.environ.get('VERIF_SEED', '0'))
    except ValueError:
        seed = 0
    cfg = Config(repo=a.repo, tier=a.tier, seed=seed, jobs=a.jobs)
    if a.selfcheck:
        return selfcheck(cfg)
    if a.all:
        import subprocess
        from concurrent.futures import ThreadPoolExecutor
        pids = [p for p in PROPS if rule_module(p) is not None]

        def one(p):
            r = subprocess.run([sys.executable, os.path.abspath(__file__), p, '--tier', a.tier, '--repo', a.repo],
                               capture_output=True, text=True)
            return p, r.returncode, r.stdout + r.stderr
        worst = 0
        with ThreadPoolExecutor(max_workers=a.jobs) as ex:
            for p, rc, out in ex.map(one, pids):
                tail = [ln for ln in out.splitlines() if ln.startswith(('VIOLATION', 'KNOWN-FINDING', 'ANALYSIS-ERROR', p + ':'))]
                print('%s exit=%d' % (p, rc))
                for ln in tail:
                    print('   ' + ln)
                worst = max(worst, rc)
        return worst
    if not a.prop or a.prop not in PROPS:
        ap.print_usage()
        return 2
    return run_property(a.prop, cfg, replay=a.replay, evidence_dir=a.evidence_dir, write_evidence=not a.no_evidence)


if __name__ == '__main__':
    sys.stdout.reconfigure(line_buffering=True)
    rc = main()
    sys.stdout.flush()
    os._exit(rc)
