#!/usr/bin/env python
"""Triage probe (NOT a registered check): runs the real compiler of <repo>/tools on a tiny TZ source whose policy name
contains a character that normalize_name() rewrites ('C-Eur'), then compares the 'name' field of the policy in the in-memory
tables of InlineGenerator with the one in the zone_policies.py written by PythonGenerator (imported back).
Usage: /venv/bin/python policy_name_probe.py [repo]"""
import importlib.util, io, os, shutil, sys, tempfile, logging
repo = sys.argv[1] if len(sys.argv) > 1 else os.environ.get('ACV_REPO', '/repo')
sys.path.insert(0, repo + '/tools')
logging.disable(logging.CRITICAL)
from tzdb.extractor import Extractor
from tzdb.transformer import Transformer
from tzdb.tzdbcollector import TzDbCollector
from zonedb.ingenerator import InlineGenerator
from zonedb.pygenerator import PythonGenerator

TEXT = '''Rule\tC-Eur\t1990\tmax\t-\tMar\tlastSun\t2:00s\t1:00\tS
Rule\tC-Eur\t1990\tmax\t-\tOct\tlastSun\t2:00s\t0\t-
Zone\tTest/Berlin\t1:00\tC-Eur\tCE%sT
'''
d = tempfile.mkdtemp(prefix='acv-triage-')
try:
    for i, f in enumerate(Extractor.ZONE_FILES):
        open(os.path.join(d, f), 'w').write(TEXT if i == 0 else '')
    ex = Extractor(d)
    ex.parse()
    rules_map, zones_map, links_map = ex.get_data()
    t = Transformer(zones_map, rules_map, links_map, 'extended', 2000, 2050, 60, 60, False)
    t.transform()
    data = t.get_data()
    names = ('zones_map', 'rules_map', 'links_map', 'removed_zones', 'removed_policies', 'removed_links', 'notable_zones', 'notable_policies', 'notable_links',
             'format_strings', 'zone_strings')
    kw = dict(zip(names, data))
    tzdb = TzDbCollector(tz_version='probe', tz_files=['x'], scope='extended', start_year=2000, until_year=2050, until_at_granularity=60, offset_granularity=60,
                         strict=False, **kw).get_data()
    zone_infos, zone_policies = InlineGenerator(tzdb['zones_map'], tzdb['rules_map']).generate_maps()
    out = os.path.join(d, 'out')
    os.mkdir(out)
    PythonGenerator(invocation='probe', tzdb=tzdb).generate_files(out)
    spec = importlib.util.spec_from_file_location('zone_policies', os.path.join(out, 'zone_policies.py'))
    mod = importlib.util.module_from_spec(spec)
    spec.loader.exec_module(mod)
    mem = {k: v['name'] for k, v in zone_policies.items()}
    fil = {k: v['name'] for k, v in mod.ZONE_POLICY_MAP.items()}
    print('in-memory policy names :', mem)
    print('imported policy names  :', fil)
    print('EQUAL' if mem == fil and zone_policies == mod.ZONE_POLICY_MAP else 'DIFFERENT')
finally:
    shutil.rmtree(d, ignore_errors=True)
