#!/usr/bin/env python
"""Triage probe (NOT a registered check): runs the real TZ compiler of /repo/tools on a tiny TZ source
to confirm or refute a finding of the static rules.  Usage: /venv/bin/python compile_probe.py <scope> <<< "TZ text"
Prints the transformer's zones/removed/notable maps and the generated C++ era/rule items."""
import io, os, sys, tempfile, shutil, logging, json
sys.path.insert(0, os.environ.get('ACV_REPO', '/repo') + '/tools')
logging.disable(logging.CRITICAL)
from tzdb.extractor import Extractor
from tzdb.transformer import Transformer

def run(text, scope='extended', start=2000, until=2050, strict=False):
    d = tempfile.mkdtemp(prefix='acv-triage-')
    try:
        for i, f in enumerate(Extractor.ZONE_FILES):
            open(os.path.join(d, f), 'w').write(text if i == 0 else '')
        ex = Extractor(d)
        ex.parse()
        rules_map, zones_map, links_map = ex.get_data()
        t = Transformer(zones_map, rules_map, links_map, scope, start, until, 60, 900 if scope == 'basic' else 60, strict)
        t.transform()
        return ex, t
    finally:
        shutil.rmtree(d, ignore_errors=True)

if __name__ == '__main__':
    scope = sys.argv[1] if len(sys.argv) > 1 else 'extended'
    ex, t = run(sys.stdin.read(), scope)
    data = t.get_data()
    names = ['zones_map', 'rules_map', 'links_map', 'removed_zones', 'removed_policies', 'removed_links',
             'notable_zones', 'notable_policies', 'notable_links']
    for n, v in zip(names, data):
        print(n, json.dumps(v, default=str)[:1500])
    print('extractor counters', {k: getattr(ex, k) for k in dir(ex) if k.startswith(('ignored_', 'invalid_'))})
    if '--items' in sys.argv:
        from zonedb.argenerator import _to_extended_offset_and_delta
        for name, eras in data[0].items():
            for e in eras:
                print(name, _to_extended_offset_and_delta(e['offsetSecondsTruncated'], e['rulesDeltaSecondsTruncated']))
