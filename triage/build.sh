#!/bin/sh
# Triage only (NOT a registered check): build a driver against the real library of $REPO (default /repo).
# usage: build.sh driver.cpp out [extra g++ flags]
REPO=${REPO:-/repo}
drv=$1; out=$2; shift 2
g++ -std=c++11 -g -O1 -DUNIX_HOST_DUINO -I/verif/shim -I$REPO/src "$@" -o "$out" "$drv" /verif/triage/rt.cpp \
  $REPO/src/ace_time/*.cpp $REPO/src/ace_time/zonedb/*.cpp $REPO/src/ace_time/zonedbx/*.cpp $REPO/src/ace_time/common/DateStrings.cpp
