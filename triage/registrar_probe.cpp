// Triage probe for C10 (F4): exhaustive look-ups in sorted registries of size 0..40 built from zonedb.
#include <Arduino.h>
#include <AceTime.h>
#include <stdio.h>
#include <string>
#include <vector>
#include <signal.h>
#include <unistd.h>
using namespace ace_time;
static void onalarm(int) { printf("HANG\n"); _exit(3); }
int main() {
  signal(SIGALRM, onalarm); alarm(20);
  int bad = 0; long n = 0;
  for (uint16_t size = 0; size <= 40; size++) {
    BasicZoneRegistrar r(size, zonedb::kZoneRegistry);
    std::vector<std::string> names;
    for (uint16_t i = 0; i < size; i++) names.push_back(basic::ZoneInfoBroker(zonedb::kZoneRegistry[i]).name());
    for (uint16_t i = 0; i < size; i++) { n++; if (r.findIndexForName(names[i].c_str()) != i) { bad++; printf("size %d present %s\n", size, names[i].c_str()); } }
    std::vector<std::string> absent; absent.push_back("AAA"); absent.push_back("zzz"); absent.push_back("");
    for (uint16_t i = 0; i < size; i++) { absent.push_back(names[i] + "x"); absent.push_back(names[i].substr(0, names[i].size() - 1)); }
    for (auto& a : absent) { bool present = false; for (auto& p : names) if (p == a) present = true; if (present) continue;
      n++; if (r.findIndexForName(a.c_str()) != BasicZoneRegistrar::kInvalidIndex) { bad++; printf("size %d absent %s found\n", size, a.c_str()); } }
  }
  printf("lookups %ld bad %d\n", n, bad);
  return bad ? 1 : 0;
}
