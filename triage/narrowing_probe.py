#!/usr/bin/env python
"""Triage probe (NOT a registered check) for C12-R5: the extended generator emits deltaCode as "(minute << 4) + base"
into an int8_t member.  Runs the real generator helper of /repo/tools for a few standard offsets and compiles the
emitted expression into the real extended::ZoneEra aggregate with g++ -std=c++11 -fsyntax-only.
usage: /venv/bin/python narrowing_probe.py"""
import os, subprocess, sys, tempfile
REPO = os.environ.get('ACV_REPO', '/repo')
sys.path.insert(0, REPO + '/tools')
from zonedb.argenerator import _to_extended_offset_and_delta  # noqa: E402

for label, off in (('+5:30', 19800), ('+5:37', 20220), ('+5:38', 20280), ('+5:40', 20400), ('+5:44', 20640), ('-0:44', -2640)):
    code, delta = _to_extended_offset_and_delta(off, 0)
    src = '''#include <Arduino.h>
#include <ace_time/internal/ZoneInfo.h>
using namespace ace_time;
static const extended::ZoneEra era = {
  nullptr /*zonePolicy*/, "X" /*format*/, %d /*offsetCode*/, %s /*deltaCode*/,
  127 /*untilYearTiny*/, 1, 1, 0, extended::ZoneContext::kSuffixW };
int main() { return era.deltaCode; }
''' % (code, delta)
    d = tempfile.mkdtemp(prefix='acv-triage-')
    p = os.path.join(d, 'probe.cpp')
    open(p, 'w').write(src)
    r = subprocess.run(['g++', '-std=c++11', '-fsyntax-only', '-DUNIX_HOST_DUINO', '-I/verif/shim', '-I%s/src' % REPO, p], capture_output=True, text=True)
    first = [ln for ln in r.stderr.splitlines() if 'error' in ln][:1]
    print('STDOFF %-6s -> offsetCode %4d, deltaCode %-16s : %s' % (label, code, delta, 'compiles' if r.returncode == 0 else 'DOES NOT COMPILE: ' + (first[0].split('error:')[-1].strip() if first else r.stderr[-200:])))
    subprocess.run(['rm', '-rf', d])
