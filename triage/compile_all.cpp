// Triage only (NOT a registered check): instantiates the header-only templates of the library so that a stored change
// can be confirmed to compile; tools/seed.py builds it against a scratch worktree.  It is never run by a check.
#include <Arduino.h>
#include <AceTime.h>
#include <stdio.h>
using namespace ace_time;
using namespace ace_time::clock;

namespace ace_common { void TimingStats::update(uint16_t) {} }

static BasicZoneManager<2> basicManager(zonedb::kZoneRegistrySize, zonedb::kZoneRegistry);
static ExtendedZoneManager<2> extendedManager(zonedbx::kZoneRegistrySize, zonedbx::kZoneRegistry);

int main() {
  TimeZone a = basicManager.createForZoneInfo(&zonedb::kZoneAmerica_Los_Angeles);
  TimeZone b = extendedManager.createForZoneInfo(&zonedbx::kZoneAmerica_Los_Angeles);
  TimeZone c = basicManager.createForZoneName("America/New_York");
  TimeZone d = extendedManager.createForZoneId(zonedbx::kZoneIdEurope_London);
  TimeZone e = basicManager.createForZoneIndex(0);
  TimeZoneData td = b.toTimeZoneData();
  TimeZone f = extendedManager.createForTimeZoneData(td);
  TimeZone g = basicManager.createForTimeZoneData(a.toTimeZoneData());
  ZonedDateTime z1 = ZonedDateTime::forEpochSeconds(0, a);
  ZonedDateTime z2 = ZonedDateTime::forComponents(2019, 3, 10, 2, 30, 0, b);
  ZonedDateTime z3 = z2.convertToTimeZone(c);
  OffsetDateTime o = OffsetDateTime::forDateString("2019-03-10T02:30:00-08:00");
  LocalDateTime l = LocalDateTime::forDateString("2019-03-10T02:30:00");
  TimePeriod p(3661);
  time_period_mutation::negate(p);
  zoned_date_time_mutation::incrementHour(z1);
  TimeOffset off = TimeOffset::forHourMinute(-8, 0);
  time_offset_mutation::increment15Minutes(off);
  SystemClockLoop loopClock(nullptr, nullptr);
  loopClock.setup();
  loopClock.loop();
  (void) loopClock.getNow();
  loopClock.setNow(1);
  z1.printTo(Serial);
  z2.printTo(Serial);
  a.printTo(Serial);
  b.printShortTo(Serial);
  p.printTo(Serial);
  printf("%d %d %d %d %d %d %d\n", (int) (a == b), (int) (d == e), (int) (f == g), (int) z3.isError(), (int) o.isError(), (int) l.isError(),
         (int) (basicManager.indexForZoneName("UTC") + extendedManager.indexForZoneId(0) + basicManager.registrySize()));
  return 0;
}
