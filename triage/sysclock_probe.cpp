// Triage probe for C13-R4 (NOT a registered check): set, idle without polling, set to the same second again.
#include <Arduino.h>
#include <AceTime.h>
#include <ace_time/testing/FakeMillis.h>
#include <ace_time/testing/TestableSystemClockLoop.h>
#include <stdio.h>
using namespace ace_time;
int main() {
  testing::FakeMillis fm;
  testing::TestableSystemClockLoop clk(nullptr, nullptr, &fm);
  clk.setup();
  fm.millis(0);
  clk.setNow(100);
  fm.millis(5000);          // nobody polled getNow() for 5 s
  clk.setNow(100);          // "it is second 100 now" (m0 = 5000)
  long a = clk.getNow();    // property: 100 + floor((5000 - 5000) / 1000) = 100
  fm.millis(5999);
  long b = clk.getNow();    // property: 100
  printf("after re-set at m0=5000: getNow()=%ld (expected 100), at m=5999: %ld (expected 100)\n", a, b);
  return (a == 100 && b == 100) ? 0 : 1;
}
