// Triage probe (NOT a registered check) for C09-R8: each call below is one obligation the interval analysis could not
// discharge; built with -fsanitize=undefined every genuine one prints "runtime error: signed integer overflow".
//   sh triage/build.sh triage/overflow_probe.cpp /tmp/ovf -fsanitize=undefined && /tmp/ovf
#include <Arduino.h>
#include <AceTime.h>
#include <stdio.h>
using namespace ace_time;

static volatile int32_t sink;
static volatile int32_t kUnixEarly = -2000000000;   // volatile: keep the compiler from folding the call away
#define PROBE(label, expr) do { printf("== %s\n", label); fflush(stdout); sink = (int32_t) (expr); } while (0)

int main() {
  PROBE("LocalDate::forEpochDays(2147483647)  [extractYearMonthDay: epochDays + kDaysSinceJulianEpoch]",
        LocalDate::forEpochDays(2147483647).day());
  PROBE("LocalDate::forUnixDays(-2147483640)  [unixDays - kDaysSinceUnixEpoch]",
        LocalDate::forUnixDays(-2147483640).day());
  PROBE("LocalDate::forUnixSeconds(kUnixEarly)  [unixSeconds - kSecondsSinceUnixEpoch]",
        LocalDate::forUnixSeconds(kUnixEarly).day());
  PROBE("LocalDate(2100-01-01).toEpochSeconds()  [86400 * toEpochDays()]",
        LocalDate::forComponents(2100, 1, 1).toEpochSeconds());
  PROBE("LocalDate(2100-01-01).toUnixSeconds()  [86400 * toUnixDays()]",
        LocalDate::forComponents(2100, 1, 1).toUnixSeconds());
  PROBE("LocalDateTime::forEpochSeconds(-2147483647)  [86400 * days]",
        LocalDateTime::forEpochSeconds(-2147483647).second());
  PROBE("LocalDateTime::forUnixSeconds(kUnixEarly)  [unixSeconds - kSecondsSinceUnixEpoch]",
        LocalDateTime::forUnixSeconds(kUnixEarly).second());
  PROBE("LocalDateTime(2100-01-01T00:00:00).toEpochSeconds()  [days * 86400 (+ seconds)]",
        LocalDateTime::forComponents(2100, 1, 1, 0, 0, 0).toEpochSeconds());
  PROBE("LocalDateTime(2040-01-01T00:00:00).toUnixSeconds()  [toEpochSeconds() + kSecondsSinceUnixEpoch]",
        LocalDateTime::forComponents(2040, 1, 1, 0, 0, 0).toUnixSeconds());
  PROBE("OffsetDateTime::forEpochSeconds(2147483647, +01:00)  [epochSeconds + offset]",
        OffsetDateTime::forEpochSeconds(2147483647, TimeOffset::forHours(1)).second());
  PROBE("OffsetDateTime::forUnixSeconds(kUnixEarly, +00:00)  [unixSeconds - kSecondsSinceUnixEpoch]",
        OffsetDateTime::forUnixSeconds(kUnixEarly, TimeOffset()).second());
  PROBE("OffsetDateTime(1931-12-13T20:45:53-01:00) built from fields .toEpochSeconds()  [local - offset]",
        OffsetDateTime::forComponents(2068, 1, 19, 3, 14, 7, TimeOffset::forHours(-1)).toEpochSeconds());
  PROBE("OffsetDateTime(2040-01-01T00:00:00+00:00).toUnixSeconds()  [toEpochSeconds() + kSecondsSinceUnixEpoch]",
        OffsetDateTime::forComponents(2040, 1, 1, 0, 0, 0, TimeOffset()).toUnixSeconds());
  PROBE("ZonedDateTime::forUnixSeconds(kUnixEarly, UTC)  [unixSeconds - kSecondsSinceUnixEpoch]",
        ZonedDateTime::forUnixSeconds(kUnixEarly, TimeZone()).second());
  {
    static volatile int32_t kMin = (-2147483647 - 1);
    PROBE("TimePeriod(INT32_MIN)  [seconds = -seconds]", TimePeriod(kMin).hour());
  }
  printf("== done\n");
  return 0;
}
