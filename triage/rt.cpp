// Bodies for the declaration-only shim, so that triage drivers (NOT registered checks) can link.
#include <Arduino.h>
#include <AceCommon.h>
#include <stdio.h>
Print::~Print() {}
size_t Print::print(const __FlashStringHelper* s) { return print((const char*) s); }
size_t Print::print(const char* s) { size_t n = 0; while (*s) { write((uint8_t) *s++); n++; } return n; }
size_t Print::print(char c) { write((uint8_t) c); return 1; }
static size_t pnum(Print& p, long long v, int base) { char b[32]; snprintf(b, sizeof b, base == 16 ? "%llx" : "%lld", v); return p.print(b); }
size_t Print::print(unsigned char v, int base) { return pnum(*this, v, base); }
size_t Print::print(int v, int base) { return pnum(*this, v, base); }
size_t Print::print(unsigned int v, int base) { return pnum(*this, v, base); }
size_t Print::print(long v, int base) { return pnum(*this, v, base); }
size_t Print::print(unsigned long v, int base) { return pnum(*this, (long long) v, base); }
size_t Print::print(double v, int) { char b[32]; snprintf(b, sizeof b, "%f", v); return print(b); }
size_t Print::println() { return print('\n'); }
size_t Print::println(const __FlashStringHelper* s) { return print(s) + println(); }
size_t Print::println(const char* s) { return print(s) + println(); }
size_t Print::println(char c) { return print(c) + println(); }
size_t Print::println(unsigned char v, int b) { return print(v, b) + println(); }
size_t Print::println(int v, int b) { return print(v, b) + println(); }
size_t Print::println(unsigned int v, int b) { return print(v, b) + println(); }
size_t Print::println(long v, int b) { return print(v, b) + println(); }
size_t Print::println(unsigned long v, int b) { return print(v, b) + println(); }
size_t Print::println(double v, int d) { return print(v, d) + println(); }
size_t HardwareSerial::write(uint8_t c) { putchar(c); return 1; }
HardwareSerial Serial;
static unsigned long g_millis = 0;
extern "C" unsigned long millis() { return g_millis; }
extern "C" void verif_set_millis(unsigned long m) { g_millis = m; }
int strcmp_P(const char* a, const char* b) { return strcmp(a, b); }
char* strncpy_P(char* d, const char* s, size_t n) { return strncpy(d, s, n); }
char* strcpy_P(char* d, const char* s) { return strcpy(d, s); }
const char* strchr_P(const char* s, int c) { return strchr(s, c); }
const char* strrchr_P(const char* s, int c) { return strrchr(s, c); }
size_t strlen_P(const char* s) { return strlen(s); }
void* memcpy_P(void* d, const void* s, size_t n) { return memcpy(d, s, n); }
namespace ace_common {
void printPad2To(Print& p, uint8_t v, char pad) { if (v < 10) p.print(pad); p.print((int) v); }
void printPad3To(Print& p, uint16_t v, char pad) { if (v < 100) p.print(pad); if (v < 10) p.print(pad); p.print((int) v); }
int strcmp_PP(const char* a, const char* b) { return strcmp(a, b); }
const char* strchr_P(const char* s, int c) { return strchr(s, c); }
const char* strrchr_P(const char* s, int c) { return strrchr(s, c); }
uint8_t decToBcd(uint8_t v) { return (v / 10) * 16 + v % 10; }
uint8_t bcdToDec(uint8_t v) { return (v >> 4) * 10 + (v & 15); }
}
