// Triage probe (NOT a registered check): build with
//   sh triage/build.sh triage/month_table_probe.cpp /tmp/mtp -fsanitize=address -fno-sanitize-recover=all
// and run /tmp/mtp <case>: case 1 = LocalDate::daysInMonth(2001, 0), case 2 = LocalDate::forError().dayOfWeek(),
// case 3 = daysInMonth(2001, 13). AddressSanitizer reports a global-buffer-overflow for each (one byte before / after the
// twelve-entry month tables of LocalDate.cpp).
#include <stdio.h>
#include <stdlib.h>
#include <AceTime.h>
using namespace ace_time;

int main(int argc, char** argv) {
  int which = argc > 1 ? atoi(argv[1]) : 1;
  volatile uint8_t month = (which == 3) ? 13 : 0;
  if (which == 2) {
    LocalDate d = LocalDate::forError();
    printf("forError(): month=%d day=%d isError=%d\n", d.month(), d.day(), d.isError());
    printf("dayOfWeek() = %d\n", d.dayOfWeek());
  } else {
    printf("daysInMonth(2001, %d) = %d\n", month, LocalDate::daysInMonth(2001, month));
  }
  return 0;
}
