#!/usr/bin/env python3
"""Triage probe (NOT a registered check): the model zones of acv/rules_C04c.py through the REAL processors.

The tables the interpreted compiler renders for the model source (basic and extended scope) are written to a scratch directory
together with a driver; triage/build.sh builds it against the library of the repository; the driver prints, for the hours around
each New Year 2003..2007 of the zones named on the command line, what BasicZoneProcessor and ExtendedZoneProcessor answer, and
marks the instants where they differ.  Usage: python3 triage/model_zone_probe.py [repo] [zone ...]"""
import os
import shutil
import subprocess
import sys
import tempfile

HERE = os.path.dirname(os.path.abspath(__file__))
sys.path.insert(0, os.path.dirname(HERE))
from acv.common import Config          # noqa: E402
from acv import pipeline, rules_C04c   # noqa: E402
from acv.rules_C11 import normalize_name   # noqa: E402

args = sys.argv[1:]
repo = args[0] if args and os.path.isdir(args[0]) else '/repo'
zones = [a for a in args if a.startswith('Model/')] or ['Model/PolicyChange', 'Model/FixedThenDst']
cfg = Config(repo)
tmp = tempfile.mkdtemp(prefix='acv-triage-')
try:
    srcs = []
    for scope, db in (('basic', 'mzb'), ('extended', 'mzx')):
        sw = pipeline.sweep(cfg, scope, text=rules_C04c.MODEL_TEXT, tag='models')
        d = os.path.join(tmp, db)
        os.makedirs(d)
        # the same tables under a namespace of their own (the shipped databases are linked into the driver as well)
        for name, text in pipeline.render(cfg, sw.tzdb, db).items():
            open(os.path.join(d, name), 'w').write(text)
        srcs += [os.path.join(d, 'zone_infos.cpp'), os.path.join(d, 'zone_policies.cpp')]
    decl = ''.join('namespace ace_time { namespace mzb { extern const basic::ZoneInfo kZone%s; } namespace mzx { extern const extended::ZoneInfo kZone%s; } }\n'
                   % (normalize_name(z), normalize_name(z)) for z in zones)
    body = ''.join('  probe("%s", &ace_time::mzb::kZone%s, &ace_time::mzx::kZone%s);\n' % (z, normalize_name(z), normalize_name(z)) for z in zones)
    drv = os.path.join(tmp, 'driver.cpp')
    open(drv, 'w').write('''#include <stdio.h>
#include <string.h>
#include <AceTime.h>
using namespace ace_time;
''' + decl + '''
static void probe(const char* name, const basic::ZoneInfo* bi, const extended::ZoneInfo* xi) {
  BasicZoneProcessor bp(bi);
  ExtendedZoneProcessor xp(xi);
  int differ = 0, n = 0;
  for (int year = 2003; year <= 2007; year++) {
    acetime_t ny = LocalDate::forComponents(year, 1, 1).toEpochSeconds();
    for (int h = -30; h <= 30; h++) {
      acetime_t e = ny + 3600 * h;
      int bo = bp.getUtcOffset(e).toMinutes(), xo = xp.getUtcOffset(e).toMinutes();
      int bd = bp.getDeltaOffset(e).toMinutes(), xd = xp.getDeltaOffset(e).toMinutes();
      char ba[16], xa[16];
      strncpy(ba, bp.getAbbrev(e), 15); ba[15] = 0;
      strncpy(xa, xp.getAbbrev(e), 15); xa[15] = 0;
      n++;
      if (bo != xo || bd != xd || strcmp(ba, xa) != 0) {
        differ++;
        if (differ <= 6) printf("%s %d-01-01 %+dh UTC: basic (%d, %d, %s)  extended (%d, %d, %s)\\n", name, year, h, bo, bd, ba, xo, xd, xa);
      }
    }
  }
  printf("%s: %d of %d instants differ\\n", name, differ, n);
}
int main() {
''' + body + '''  return 0;
}
''')
    exe = os.path.join(tmp, 'probe')
    r = subprocess.run(['sh', os.path.join(HERE, 'build.sh'), drv, exe] + srcs, env=dict(os.environ, REPO=repo), capture_output=True, text=True)
    if r.returncode:
        print('BUILD FAILED\n', (r.stdout + r.stderr)[-3000:])
        sys.exit(2)
    print(subprocess.run([exe], capture_output=True, text=True).stdout)
finally:
    shutil.rmtree(tmp, ignore_errors=True)
