// Triage probe for C07-R1 / F6 (NOT a registered check): offsets chosen for local times around midnight, all zonedbx zones.
#include <Arduino.h>
#include <AceTime.h>
#include <stdio.h>
using namespace ace_time;
int main(int argc, char** argv) {
  ExtendedZoneProcessor proc;
  if (argc > 1) {
    auto tz = TimeZone::forZoneInfo(&zonedbx::kZoneAsia_Beirut, &proc);
    auto z = ZonedDateTime::forComponents(2020, 10, 24, 23, 30, 0, tz);
    printf("Asia/Beirut 2020-10-24T23:30 -> offset %d min (overlap: later occurrence is +120)\n", z.timeOffset().toMinutes());
    auto tz2 = TimeZone::forZoneInfo(&zonedbx::kZoneAmerica_Los_Angeles, &proc);
    auto z2 = ZonedDateTime::forComponents(2020, 11, 1, 1, 30, 0, tz2);
    printf("America/Los_Angeles 2020-11-01T01:30 -> offset %d min (later occurrence is -480)\n", z2.timeOffset().toMinutes());
    return 0;
  }
  for (uint16_t i = 0; i < zonedbx::kZoneRegistrySize; i++) {
    const extended::ZoneInfo* zi = zonedbx::kZoneRegistry[i];
    auto tz = TimeZone::forZoneInfo(zi, &proc);
    for (int y = 2000; y < 2050; y++) for (int m = 1; m <= 12; m++) for (int d = 1; d <= 28; d++)
      for (int h = 0; h < 24; h += 23) {
        auto z = ZonedDateTime::forComponents(y, m, d, h, 30, 0, tz);
        printf("%s %04d-%02d-%02dT%02d:30 %d %d\n", extended::ZoneInfoBroker(zi).name(), y, m, d, h, z.isError() ? -9999 : z.timeOffset().toMinutes(), z.isError() ? 0 : (int) z.hour());
      }
  }
  return 0;
}
