// Triage probe (NOT a registered check): after the fix of LocalDateTime::forEpochSeconds the lowest partial day of the
// int32 range must still round-trip and must be clean under -fsanitize=undefined.
//   sh triage/build.sh triage/ldt_low_range_probe.cpp /tmp/ldt -fsanitize=undefined && /tmp/ldt
#include <Arduino.h>
#include <AceTime.h>
#include <stdio.h>
using namespace ace_time;

int main() {
  long bad = 0, n = 0;
  for (int64_t e = -2147483647LL; e < -2147483647LL + 200000; e++) {
    LocalDateTime dt = LocalDateTime::forEpochSeconds((acetime_t) e);
    n++;
    // fields must be valid; the day/time split must be the floor division by 86400
    int64_t days = (e >= 0) ? e / 86400 : -((-e + 86399) / 86400);
    int64_t secs = e - days * 86400;
    if (dt.isError() || dt.hour() * 3600L + dt.minute() * 60L + dt.second() != secs
        || dt.localDate().toEpochDays() != days) bad++;
  }
  for (int64_t e = 2147483647LL - 200000; e <= 2147483647LL; e++) {
    LocalDateTime dt = LocalDateTime::forEpochSeconds((acetime_t) e);
    n++;
    int64_t days = e / 86400, secs = e - days * 86400;
    if (dt.isError() || dt.hour() * 3600L + dt.minute() * 60L + dt.second() != secs
        || dt.localDate().toEpochDays() != days) bad++;
  }
  printf("%ld values checked, %ld wrong\n", n, bad);
  return bad != 0;
}
