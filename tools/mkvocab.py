#!/usr/bin/env python3
"""Writes acv/vocabulary.txt: the qualified names of all library functions of the tree the checker is built against.
Run once against the reference tree (the unchanged /repo); the file is committed.  A function the vocabulary does not
know is treated by the analyses as a helper extracted later (acv/inline.py)."""
import os
import sys

HERE = os.path.dirname(os.path.abspath(__file__))
sys.path.insert(0, os.path.dirname(HERE))


def main():
    from acv.common import Config
    from acv import cxx
    out = os.path.join(os.path.dirname(HERE), 'acv', 'vocabulary.txt')
    if os.path.exists(out):
        os.rename(out, out + '.old')          # the loader must not hide anything while the names are collected
    cxx._VOCAB = None
    try:
        lib = cxx.load_lib(Config())
        names = sorted(q for q in list(lib.funcs) + list(lib.helpers) if q.startswith('ace_time::'))
    finally:
        if os.path.exists(out + '.old'):
            os.rename(out + '.old', out)
    with open(out, 'w') as fh:
        fh.write('# qualified names of the functions of src/ace_time at the reference tree (tools/mkvocab.py)\n')
        for q in names:
            fh.write(q + '\n')
    print('%d names -> %s' % (len(names), out))


if __name__ == '__main__':
    main()
