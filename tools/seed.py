#!/usr/bin/env python3
"""Seeded changes: confirm one in a scratch worktree, store it under /verif/seeded/, run the checks against it.

  seed.py confirm <src-dir> <id> --breaks Cxx [--wt DIR]   src-dir holds patch.diff + demo.cpp|demo.py (+ README.md)
  seed.py detect  <id> [Cxx ...]                            apply seeded/<id>/patch.diff to /repo, run the checks, undo
  seed.py detect-all [--lanes N] [ids]                      every stored change, on scratch worktrees, frozen copy of the checker
  seed.py table                                             print the catch table (markdown) from the stored results
  seed.py neutral-confirm <src-dir> <id> --area Cxx         a behaviour-preserving change: builds + tests pass -> /verif/neutral/<id>/
  seed.py neutral-all [--lanes N] [ids]                     every stored neutral change against every check: all must stay quiet

Not a registered check: this is the bench that measures the checks. `confirm` executes the repository (demo + test
suite) on a scratch worktree outside /repo and /verif; the checks themselves never do.
"""
import argparse
import glob
import json
import os
import shutil
import subprocess
import sys
import tempfile

VERIF = os.path.dirname(os.path.dirname(os.path.abspath(__file__)))
SEEDED = os.path.join(VERIF, 'seeded')
REPO = '/repo'
PROPS = ['C%02d' % i for i in range(2, 21)]


def sh(cmd, cwd=None, env=None, timeout=1800):
    e = dict(os.environ)
    e.update(env or {})
    r = subprocess.run(cmd, cwd=cwd, env=e, shell=isinstance(cmd, str), capture_output=True, text=True, timeout=timeout)
    return r.returncode, r.stdout + r.stderr


def build_and_run(demo, wt, work):
    """-> (rc, output) of the demonstration against the tree in wt"""
    if demo.endswith('.sh'):
        rc, out = sh(['sh', demo, wt], cwd=work, timeout=1800)
        return rc, out[-3000:]
    if demo.endswith('.cpp'):
        exe = os.path.join(work, 'demo.bin')
        flags = []
        ff = os.path.join(os.path.dirname(demo), 'cxxflags.txt')      # a demonstration that needs a sanitizer says so here
        if os.path.exists(ff):
            flags = open(ff).read().split()
        rc, out = sh(['sh', os.path.join(VERIF, 'triage', 'build.sh'), demo, exe] + flags, env={'REPO': wt})
        if rc != 0:
            return 'BUILD-FAILED', out[-3000:]
        rc, out = sh([exe], cwd=work, timeout=900)
        os.remove(exe)
        return rc, out[-3000:]
    rc, out = sh(['/venv/bin/python', demo, wt], cwd=work,
                 env={'PYTHONPATH': os.path.join(wt, 'tools'), 'ACETIME_WT': wt, 'PYTHONDONTWRITEBYTECODE': '1'}, timeout=900)
    return rc, out[-3000:]


def failed(rc, out):
    return rc != 0 or 'FAIL' in out


def confirm(a):
    src = os.path.abspath(a.src)
    patch = os.path.join(src, 'patch.diff')
    # a demo.py beside a demo.cpp is the orchestrator (it builds and runs the driver itself)
    demos = [p for p in (os.path.join(src, 'demo.py'), os.path.join(src, 'demo.cpp')) if os.path.exists(p)]
    if len(demos) == 2 and 'demo.cpp' not in open(demos[0]).read():
        demos.reverse()
    runsh = os.path.join(src, 'run.sh')
    if os.path.exists(runsh) and os.path.exists(os.path.join(src, 'gen.py')):
        demos.insert(0, runsh)      # a multi-step demonstration: generate tables, build a driver against them, run it
    if not os.path.exists(patch) or not demos:
        print('missing patch.diff or demo in', src)
        return 2
    demo = demos[0]
    own_wt = False
    wt = a.wt
    if not wt:
        wt = tempfile.mkdtemp(prefix='acv-seed-', dir='/tmp')
        os.rmdir(wt)
        rc, out = sh(['git', '-C', REPO, 'worktree', 'add', '--detach', wt, 'HEAD'])
        if rc:
            print(out)
            return 2
        own_wt = True
    work = tempfile.mkdtemp(prefix='acv-seedwork-', dir='/tmp')
    res = {'id': a.id, 'breaks': a.breaks}
    try:
        rc, out = sh(['git', '-C', wt, 'status', '--porcelain'])
        if out.strip():
            print('worktree not clean:', out)
            return 2
        head = sh(['git', '-C', wt, 'rev-parse', 'HEAD'])[1].strip()
        repo_head = sh(['git', '-C', REPO, 'rev-parse', 'HEAD'])[1].strip()
        res['tree'] = head
        if head != repo_head:
            print('worktree HEAD %s differs from /repo HEAD %s' % (head, repo_head))
            return 2
        # the python demos take the worktree as argv[1] or read ACETIME_WT; older ones hard-code the agent's worktree path
        rc0, out0 = build_and_run(demo, wt, work)
        res['clean'] = {'rc': rc0, 'tail': out0[-1200:]}
        rc, out = sh(['git', '-C', wt, 'apply', patch])
        if rc:
            print('patch does not apply:', out)
            return 2
        try:
            rct, outt = sh('/venv/bin/python -m pytest -q -p no:cacheprovider 2>&1 | tail -3', cwd=wt)
            res['pytest'] = outt.strip().splitlines()[-1] if outt.strip() else ''
            rc1, out1 = build_and_run(demo, wt, work)
            res['changed'] = {'rc': rc1, 'tail': out1[-1200:]}
        finally:
            sh(['git', '-C', wt, 'checkout', '--', '.'])
            sh(['git', '-C', wt, 'clean', '-fdq'])
        ok = (not failed(rc0, out0)) and rc1 != 'BUILD-FAILED' and failed(rc1, out1) and '34 passed' in res['pytest']
        res['confirmed'] = bool(ok)
        print(json.dumps({k: (v if k not in ('clean', 'changed') else {'rc': v['rc'], 'tail': v['tail'][-400:]}) for k, v in res.items()}, indent=1))
        if not ok:
            return 1
        dst = os.path.join(SEEDED, a.id)
        os.makedirs(dst, exist_ok=True)
        shutil.copy(patch, os.path.join(dst, 'patch.diff'))
        for extra in glob.glob(os.path.join(src, '*.cpp')) + glob.glob(os.path.join(src, '*.py')) + glob.glob(os.path.join(src, 'run.sh')) + glob.glob(os.path.join(src, 'cxxflags.txt')):
            shutil.copy(extra, os.path.join(dst, os.path.basename(extra)))
            if extra.endswith('run.sh'):
                t = open(os.path.join(dst, 'run.sh')).read().replace('/tmp/acekit/build.sh', '/verif/triage/build.sh')
                open(os.path.join(dst, 'run.sh'), 'w').write(t)
        if os.path.exists(os.path.join(src, 'README.md')):
            shutil.copy(os.path.join(src, 'README.md'), os.path.join(dst, 'NOTES.md'))
        meta = {
            'id': a.id, 'breaks': a.breaks, 'needs': a.needs or '', 'summary': a.summary or '',
            'files': sorted(set(ln[6:].strip() for ln in open(patch) if ln.startswith('+++ b/'))),
            'confirmed_on_tree': head,
            'ran': {
                'build+demo on the unchanged worktree': 'exit %s' % rc0,
                'pytest with the change': res['pytest'],
                'build+demo with the change': 'exit %s' % rc1,
                'demo output with the change (tail)': out1[-600:],
            },
            'how': 'tools/seed.py confirm: scratch worktree outside /repo and /verif; demo built with triage/build.sh '
                   '(g++ -std=c++11, declaration shim) or run with /venv/bin/python and PYTHONPATH=<worktree>/tools',
        }
        json.dump(meta, open(os.path.join(dst, 'meta.json'), 'w'), indent=1)
        print('stored', dst)
        return 0
    finally:
        shutil.rmtree(work, ignore_errors=True)
        if own_wt:
            sh(['git', '-C', REPO, 'worktree', 'remove', '--force', wt])


def detect_one(sid, props, target=REPO, checker=VERIF, jobs=16):
    """apply the stored change to `target` (/repo, or a scratch worktree of it at the same commit), run the checks of
    `checker` (this /verif, or a frozen copy of it) on that tree, undo the change."""
    dst = os.path.join(SEEDED, sid)
    patch = os.path.join(dst, 'patch.diff')
    rc, out = sh(['git', '-C', target, 'status', '--porcelain'])
    if out.strip():
        print('%s is not clean; refusing: %s' % (target, out))
        return None
    if target != REPO and sh(['git', '-C', target, 'rev-parse', 'HEAD'])[1].strip() != sh(['git', '-C', REPO, 'rev-parse', 'HEAD'])[1].strip():
        print('%s is not at the commit of /repo; refusing' % target)
        return None
    rc, out = sh(['git', '-C', target, 'apply', patch])
    if rc:
        print('patch does not apply to %s: %s' % (target, out))
        return None
    results = {}
    try:
        from concurrent.futures import ThreadPoolExecutor

        def one(p):
            r = subprocess.run([sys.executable, os.path.join(checker, 'check.py'), p, '--no-evidence', '--repo', target], capture_output=True, text=True)
            lines = (r.stdout + r.stderr).splitlines()
            hits = []
            import re
            for i, ln in enumerate(lines):
                if re.match(r'^\S*: %s \[[^\]]+\] ' % p, ln):
                    hits.append(ln[:400])
                elif ln.startswith('ANALYSIS-ERROR'):
                    hits.append(ln[:400])
            return p, r.returncode, hits
        with ThreadPoolExecutor(max_workers=jobs) as ex:
            for p, rc, hits in ex.map(one, props):
                results[p] = {'exit': rc, 'reports': hits[:6]}
    finally:
        sh(['git', '-C', target, 'checkout', '--', '.'])
        if target != REPO:
            sh(['git', '-C', target, 'clean', '-fdq'])
    left = sh(['git', '-C', target, 'status', '--porcelain'])[1].strip()
    if left:
        print('WARNING: %s not clean after undo: %s' % (target, left))
    meta = json.load(open(os.path.join(dst, 'meta.json')))
    caught = sorted(p for p, r in results.items() if r['exit'] == 1)
    broken = sorted(p for p, r in results.items() if r['exit'] not in (0, 1))
    det = {'caught_by': caught, 'analysis_error_in': broken,
           'reports': {p: results[p]['reports'] for p in caught + broken},
           'checks_run': sorted(results), 'tier': 'quick'}
    json.dump(det, open(os.path.join(dst, 'detect.json'), 'w'), indent=1)
    print('%-28s breaks=%s caught_by=%s%s' % (sid, meta['breaks'], ','.join(caught) or '-',
                                              (' ANALYSIS-ERROR in ' + ','.join(broken)) if broken else ''))
    for p in caught + broken:
        for h in results[p]['reports'][:2]:
            print('      %s: %s' % (p, h[:230]))
    return det


def detect_all(lanes, ids):
    """every stored change, each applied to a scratch worktree of /repo (never to /repo itself), checked by a frozen copy
    of this /verif taken at the start (so the checker can be edited meanwhile); scratch is removed at the end."""
    from concurrent.futures import ThreadPoolExecutor
    import queue
    work = tempfile.mkdtemp(prefix='seed-detect-')
    snap = os.path.join(work, 'verif')
    shutil.copytree(VERIF, snap, ignore=shutil.ignore_patterns('seeded', 'evidence', '.git', '__pycache__', '.cache'))
    wts = queue.Queue()
    made = []
    try:
        for i in range(lanes):
            wt = os.path.join(work, 'wt%d' % i)
            rc, out = sh(['git', '-C', REPO, 'worktree', 'add', '--detach', wt, 'HEAD'])
            if rc:
                print('cannot create worktree:', out)
                return 2
            made.append(wt)
            wts.put(wt)
        todo = ids or stored()

        def one(sid):
            wt = wts.get()
            try:
                return detect_one(sid, PROPS, target=wt, checker=snap, jobs=max(2, 16 // lanes))
            finally:
                wts.put(wt)
        with ThreadPoolExecutor(max_workers=lanes) as ex:
            res = list(ex.map(one, todo))
        missed = [sid for sid, d in zip(todo, res) if d is not None and not d['caught_by']]
        print('detect-all: %d changes, %d not run, %d missed%s' % (len(todo), sum(1 for d in res if d is None), len(missed),
                                                                  (': ' + ', '.join(missed)) if missed else ''))
        return 0
    finally:
        for wt in made:
            sh(['git', '-C', REPO, 'worktree', 'remove', '--force', wt])
        shutil.rmtree(work, ignore_errors=True)


NEUTRAL = os.path.join(VERIF, 'neutral')


def neutral_confirm(a):
    """A behaviour-preserving change (patch.diff + README.md in <src>): it must apply to a scratch worktree at the commit
    of /repo, still build (triage/compile_all.cpp instantiates the header-only templates), and keep the pinned test suite
    green; then it is stored under /verif/neutral/<id>/.  That the behaviour is preserved is argued in its NOTES.md
    (differential runs by its author) and re-read by hand when a check reports it."""
    src = os.path.abspath(a.src)
    patch = os.path.join(src, 'patch.diff')
    if not os.path.exists(patch):
        print('missing patch.diff in', src)
        return 2
    own_wt = False
    wt = a.wt
    if not wt:
        wt = tempfile.mkdtemp(prefix='acv-neutral-', dir='/tmp')
        os.rmdir(wt)
        rc, out = sh(['git', '-C', REPO, 'worktree', 'add', '--detach', wt, 'HEAD'])
        if rc:
            print(out)
            return 2
        own_wt = True
    work = tempfile.mkdtemp(prefix='acv-neutralwork-', dir='/tmp')
    try:
        if sh(['git', '-C', wt, 'status', '--porcelain'])[1].strip():
            print('worktree not clean')
            return 2
        head = sh(['git', '-C', wt, 'rev-parse', 'HEAD'])[1].strip()
        if head != sh(['git', '-C', REPO, 'rev-parse', 'HEAD'])[1].strip():
            print('worktree is not at the commit of /repo')
            return 2
        rc, out = sh(['git', '-C', wt, 'apply', patch])
        if rc:
            print('patch does not apply:', out)
            return 2
        try:
            exe = os.path.join(work, 'ca.bin')
            rcb, outb = sh(['sh', os.path.join(VERIF, 'triage', 'build.sh'), os.path.join(VERIF, 'triage', 'compile_all.cpp'), exe], env={'REPO': wt})
            rct, outt = sh('/venv/bin/python -m pytest -q -p no:cacheprovider 2>&1 | tail -3', cwd=wt)
            pytest_line = outt.strip().splitlines()[-1] if outt.strip() else ''
        finally:
            sh(['git', '-C', wt, 'checkout', '--', '.'])
            sh(['git', '-C', wt, 'clean', '-fdq'])
        ok = rcb == 0 and '34 passed' in pytest_line
        print('%s: build %s, pytest: %s' % (a.id, 'ok' if rcb == 0 else 'FAILED', pytest_line))
        if not ok:
            if rcb:
                print(outb[-1500:])
            return 1
        dst = os.path.join(NEUTRAL, a.id)
        os.makedirs(dst, exist_ok=True)
        shutil.copy(patch, os.path.join(dst, 'patch.diff'))
        if os.path.exists(os.path.join(src, 'README.md')):
            shutil.copy(os.path.join(src, 'README.md'), os.path.join(dst, 'NOTES.md'))
        meta = {'id': a.id, 'area': a.area, 'summary': a.summary or '',
                'files': sorted(set(ln[6:].strip() for ln in open(patch) if ln.startswith('+++ b/'))),
                'confirmed_on_tree': head, 'ran': {'build of triage/compile_all.cpp with the change': 'ok', 'pytest with the change': pytest_line}}
        json.dump(meta, open(os.path.join(dst, 'meta.json'), 'w'), indent=1)
        return 0
    finally:
        shutil.rmtree(work, ignore_errors=True)
        if own_wt:
            sh(['git', '-C', REPO, 'worktree', 'remove', '--force', wt])


def neutral_all(lanes, ids):
    """every stored behaviour-preserving change against every check: all checks must exit 0."""
    from concurrent.futures import ThreadPoolExecutor
    import queue
    import re
    work = tempfile.mkdtemp(prefix='seed-neutral-')
    snap = os.path.join(work, 'verif')
    shutil.copytree(VERIF, snap, ignore=shutil.ignore_patterns('seeded', 'neutral', 'evidence', '.git', '__pycache__', '.cache'))
    wts = queue.Queue()
    made = []
    try:
        for i in range(lanes):
            wt = os.path.join(work, 'wt%d' % i)
            rc, out = sh(['git', '-C', REPO, 'worktree', 'add', '--detach', wt, 'HEAD'])
            if rc:
                print('cannot create worktree:', out)
                return 2
            made.append(wt)
            wts.put(wt)
        todo = ids or sorted(os.path.basename(os.path.dirname(p)) for p in glob.glob(os.path.join(NEUTRAL, '*', 'meta.json')))

        def one(nid):
            wt = wts.get()
            try:
                patch = os.path.join(NEUTRAL, nid, 'patch.diff')
                rc, out = sh(['git', '-C', wt, 'apply', patch])
                if rc:
                    return nid, None, ['patch does not apply: ' + out[:200]]
                alarms = {}
                try:
                    def chk(p):
                        r = subprocess.run([sys.executable, os.path.join(snap, 'check.py'), p, '--no-evidence', '--repo', wt], capture_output=True, text=True)
                        lines = [ln[:400] for ln in (r.stdout + r.stderr).splitlines() if re.match(r'^\S*: %s \[[^\]]+\] ' % p, ln) or ln.startswith('ANALYSIS-ERROR')]
                        return p, r.returncode, lines
                    with ThreadPoolExecutor(max_workers=max(2, 16 // lanes)) as ex:
                        for p, rc_, lines in ex.map(chk, PROPS):
                            if rc_ != 0:
                                alarms[p] = {'exit': rc_, 'reports': lines[:6]}
                finally:
                    sh(['git', '-C', wt, 'checkout', '--', '.'])
                    sh(['git', '-C', wt, 'clean', '-fdq'])
                json.dump({'alarms': alarms, 'checks_run': PROPS, 'tier': 'quick'}, open(os.path.join(NEUTRAL, nid, 'result.json'), 'w'), indent=1)
                return nid, alarms, []
            finally:
                wts.put(wt)
        bad = 0
        with ThreadPoolExecutor(max_workers=lanes) as ex:
            for nid, alarms, errs in ex.map(one, todo):
                if errs:
                    print('%-40s NOT RUN: %s' % (nid, errs[0]))
                    bad += 1
                elif alarms:
                    bad += 1
                    print('%-40s ALARM in %s' % (nid, ','.join(sorted(alarms))))
                    for p, a_ in sorted(alarms.items()):
                        for ln in a_['reports'][:2]:
                            print('      %s' % ln[:260])
                else:
                    print('%-40s quiet' % nid)
        print('neutral-all: %d changes, %d with an alarm or not run' % (len(todo), bad))
        return 0 if not bad else 1
    finally:
        for wt in made:
            sh(['git', '-C', REPO, 'worktree', 'remove', '--force', wt])
        shutil.rmtree(work, ignore_errors=True)


def stored():
    return sorted(os.path.basename(os.path.dirname(p)) for p in glob.glob(os.path.join(SEEDED, '*', 'meta.json')))


def table():
    print('| change | breaks | needs, to manifest | caught by (quick tier) | first report |')
    print('|---|---|---|---|---|')
    for sid in stored():
        d = os.path.join(SEEDED, sid)
        meta = json.load(open(os.path.join(d, 'meta.json')))
        det = json.load(open(os.path.join(d, 'detect.json'))) if os.path.exists(os.path.join(d, 'detect.json')) else {}
        caught = det.get('caught_by', [])
        first = ''
        if caught:
            p = meta['breaks'] if meta['breaks'] in caught else caught[0]
            first = (det['reports'].get(p) or [''])[0]
        print('| %s | %s | %s | %s | %s |' % (sid, meta['breaks'], meta.get('needs', '').replace('|', '/'),
                                             ', '.join(caught) or '**missed**', first.replace('|', '/')[:160]))


def neutral_table():
    print('# Behaviour-preserving changes (false-alarm bench)')
    print()
    print('Each directory holds one refactoring of the code a property is anchored in, written by an independent sub-agent that saw only the')
    print('property text (`patch.diff`), its argument and differential demonstration that behaviour is unchanged (`NOTES.md`), the confirmation')
    print('that it applies, compiles and keeps the 34 pinned tests green (`meta.json`, `tools/seed.py neutral-confirm`) and the outcome of all 19')
    print('quick checks on it (`result.json`, `tools/seed.py neutral-all`). `<P>-n<k>` is the first round (local respellings), `<P>-b<k>`, `-c<k>`')
    print('`-d<k>`, `-e<k>` and `-f<k>` the five held-out rounds (structural refactorings, maintainer-style clean-ups, changes of control-flow')
    print('shape and of where code lives, language features the code had not used, a different maintainer\'s restructurings). A check that')
    print('alarms on any of them raises a false alarm. DESIGN.md sections 10.6 and 10.7 tell the story, including the one alarm that is kept')
    print('on purpose (C05-d4).')
    print()
    print('| change | area | what was rewritten | checks that alarm (quick tier) |')
    print('|---|---|---|---|')
    quiet = n = 0
    for nid in sorted(os.path.basename(os.path.dirname(p)) for p in glob.glob(os.path.join(NEUTRAL, '*', 'meta.json'))):
        d = os.path.join(NEUTRAL, nid)
        meta = json.load(open(os.path.join(d, 'meta.json')))
        res = json.load(open(os.path.join(d, 'result.json'))) if os.path.exists(os.path.join(d, 'result.json')) else None
        what = meta.get('summary') or ''
        if not what and os.path.exists(os.path.join(d, 'NOTES.md')):
            first = open(os.path.join(d, 'NOTES.md')).readline().strip().lstrip('# ').strip()
            what = first.split(' - ', 1)[-1]
        n += 1
        if res is not None and not res.get('alarms'):
            quiet += 1
        print('| %s | %s | %s | %s |' % (nid, meta.get('area', ''), what.replace('|', '/')[:150],
                                        'not run' if res is None else (', '.join(sorted(res['alarms'])) or 'none')))
    print()
    print('%d changes, %d quiet under all 19 quick checks.' % (n, quiet))


def main():
    ap = argparse.ArgumentParser()
    sub = ap.add_subparsers(dest='cmd')
    sub.add_parser('neutral-table')
    c = sub.add_parser('confirm')
    c.add_argument('src')
    c.add_argument('id')
    c.add_argument('--breaks', required=True)
    c.add_argument('--wt')
    c.add_argument('--needs')
    c.add_argument('--summary')
    d = sub.add_parser('detect')
    d.add_argument('id')
    d.add_argument('props', nargs='*')
    da = sub.add_parser('detect-all')
    da.add_argument('--lanes', type=int, default=4, help='scratch worktrees used in parallel')
    da.add_argument('ids', nargs='*')
    sub.add_parser('table')
    nc = sub.add_parser('neutral-confirm')
    nc.add_argument('src')
    nc.add_argument('id')
    nc.add_argument('--area', required=True)
    nc.add_argument('--wt')
    nc.add_argument('--summary')
    na = sub.add_parser('neutral-all')
    na.add_argument('--lanes', type=int, default=4)
    na.add_argument('ids', nargs='*')
    a = ap.parse_args()
    if a.cmd == 'neutral-confirm':
        return neutral_confirm(a)
    if a.cmd == 'neutral-all':
        return neutral_all(a.lanes, a.ids)
    if a.cmd == 'confirm':
        return confirm(a)
    if a.cmd == 'detect':
        return 0 if detect_one(a.id, a.props or PROPS) is not None else 2
    if a.cmd == 'detect-all':
        return detect_all(a.lanes, a.ids)
    if a.cmd == 'table':
        table()
        return 0
    if a.cmd == 'neutral-table':
        neutral_table()
        return 0
    ap.print_usage()
    return 2


if __name__ == '__main__':
    sys.exit(main())
