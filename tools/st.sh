#!/bin/sh
# developer helper: thorough run of the named checks without touching evidence; prints self-test lines that are not plain passes
# ST_REPO=<dir> analyses another tree (e.g. a clean worktree) instead of /repo
cd "$(dirname "$0")/.."
for p in "$@"; do
  python3 check.py "$p" --no-evidence --tier thorough ${ST_REPO:+--repo "$ST_REPO"} > /tmp/st-$p.log 2>&1
  echo "== $p exit=$? $(grep -c 'selftest .* fired' /tmp/st-$p.log) fired, $(grep -c 'selftest .* silent' /tmp/st-$p.log) silent, $(grep -c 'selftest .* skipped' /tmp/st-$p.log) skipped"
  grep -E 'MISSED|FALSE-ALARM|ANALYSIS-ERROR|^VIOLATION|skipped' /tmp/st-$p.log | cut -c1-300
  grep -E "^$p: " /tmp/st-$p.log
done
echo STDONE
