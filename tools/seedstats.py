#!/usr/bin/env python3
"""Counts over the stored seeded changes (seeded/*/meta.json + detect.json), for DESIGN.md section 10.5."""
import glob
import json
import os

VERIF = os.path.dirname(os.path.dirname(os.path.abspath(__file__)))
rows = []
for m in sorted(glob.glob(os.path.join(VERIF, 'seeded', '*', 'meta.json'))):
    d = os.path.dirname(m)
    meta = json.load(open(m))
    det = json.load(open(os.path.join(d, 'detect.json'))) if os.path.exists(os.path.join(d, 'detect.json')) else {}
    rows.append((os.path.basename(d), meta['breaks'], det.get('caught_by', []), det.get('analysis_error_in', [])))
own = [r for r in rows if r[1] in r[2]]
other_only = [r for r in rows if r[2] and r[1] not in r[2]]
missed = [r for r in rows if not r[2]]
broken = [r for r in rows if r[3]]
print('stored changes          : %d' % len(rows))
print('reported by own check   : %d' % len(own))
print('reported by others only : %d  %s' % (len(other_only), ', '.join('%s(%s)' % (r[0], '+'.join(r[2])) for r in other_only)))
print('missed                  : %d  %s' % (len(missed), ', '.join(r[0] for r in missed)))
print('analysis errors         : %d  %s' % (len(broken), ', '.join('%s(%s)' % (r[0], '+'.join(r[3])) for r in broken)))
per = {}
for r in rows:
    per.setdefault(r[1], [0, 0])
    per[r[1]][0] += 1
    per[r[1]][1] += 1 if r[1] in r[2] else 0
print('per property (stored / by own check): ' + ', '.join('%s %d/%d' % (k, v[0], v[1]) for k, v in sorted(per.items())))
