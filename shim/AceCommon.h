// Declarations of the parts of AceCommon that AceTime uses.
#ifndef VERIF_SHIM_ACECOMMON_H
#define VERIF_SHIM_ACECOMMON_H
#include <stdint.h>
#include <string.h>
#include "Print.h"
namespace ace_common {
void printPad2To(Print& printer, uint8_t value, char padChar = ' ');
void printPad3To(Print& printer, uint16_t value, char padChar = ' ');
int strcmp_PP(const char* a, const char* b);
const char* strchr_P(const char* s, int c);
const char* strrchr_P(const char* s, int c);
uint8_t decToBcd(uint8_t v);
uint8_t bcdToDec(uint8_t v);
template <typename T> void incrementMod(T& d, T m) { d++; if (d >= m) d = 0; }
template <typename T> void incrementModOffset(T& d, T m, T offset) {
  d -= offset; d++; if (d >= m) d = 0; d += offset;
}
class TimingStats {
  public:
    TimingStats();
    void reset();
    void update(uint16_t duration);
    uint16_t getMax() const;
    uint16_t getMin() const;
    uint16_t getAvg() const;
    uint16_t getExpDecayAvg() const;
    uint16_t getCount() const;
    uint16_t getCounter() const;
};
}
#endif
