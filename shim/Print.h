#ifndef VERIF_SHIM_PRINT_H
#define VERIF_SHIM_PRINT_H
#include <stdint.h>
#include <string.h>
#include <stddef.h>
#include "WString.h"
class Print {
  public:
    virtual ~Print();
    virtual size_t write(uint8_t c) = 0;
    size_t print(const __FlashStringHelper* s);
    size_t print(const char* s);
    size_t print(char c);
    size_t print(unsigned char v, int base = 10);
    size_t print(int v, int base = 10);
    size_t print(unsigned int v, int base = 10);
    size_t print(long v, int base = 10);
    size_t print(unsigned long v, int base = 10);
    size_t print(double v, int digits = 2);
    size_t println(const __FlashStringHelper* s);
    size_t println(const char* s);
    size_t println(char c);
    size_t println(unsigned char v, int base = 10);
    size_t println(int v, int base = 10);
    size_t println(unsigned int v, int base = 10);
    size_t println(long v, int base = 10);
    size_t println(unsigned long v, int base = 10);
    size_t println(double v, int digits = 2);
    size_t println();
};
#endif
