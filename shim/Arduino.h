// Declaration-only shim of the Arduino core for static analysis (never linked).
#ifndef VERIF_SHIM_ARDUINO_H
#define VERIF_SHIM_ARDUINO_H
#include <stdint.h>
#include <stddef.h>
#include <string.h>
#include <stdio.h>
#include <stdlib.h>
#include "WString.h"
#include "Print.h"
#include "pgmspace.h"
extern "C" unsigned long millis();
extern "C" unsigned long micros();
extern "C" void delay(unsigned long ms);
extern "C" void yield();
class HardwareSerial : public Print {
  public:
    size_t write(uint8_t c) override;
};
extern HardwareSerial Serial;
#define SERIAL_PORT_MONITOR Serial
#endif
