// PROGMEM is the normal address space on the analysed host (UNIX_HOST_DUINO).
#ifndef VERIF_SHIM_PGMSPACE_H
#define VERIF_SHIM_PGMSPACE_H
#include <stdint.h>
#include <string.h>
#define PROGMEM
#define PGM_P const char*
#define PSTR(s) (s)
#define pgm_read_byte(p) (*reinterpret_cast<const uint8_t*>(p))
#define pgm_read_word(p) (*reinterpret_cast<const uint16_t*>(p))
#define pgm_read_dword(p) (*reinterpret_cast<const uint32_t*>(p))
#define pgm_read_float(p) (*reinterpret_cast<const float*>(p))
#define pgm_read_ptr(p) (*reinterpret_cast<const void* const*>(p))
int strcmp_P(const char* a, const char* b);
char* strncpy_P(char* d, const char* s, size_t n);
char* strcpy_P(char* d, const char* s);
const char* strchr_P(const char* s, int c);
const char* strrchr_P(const char* s, int c);
size_t strlen_P(const char* s);
void* memcpy_P(void* d, const void* s, size_t n);
#endif
